#!/bin/bash
# miri_pass.sh <summary.json> [seed] [shards] [runs-per-shard]
# Second executor of the thorough tier (DESIGN.md 3.12): the same seeded plans as the native
# search, interpreted by Miri in <shards> parallel single-threaded processes. Under cfg(miri)
# every element owns a heap cell, so a read after move, a double drop, an out-of-bounds read or
# a leak is reported by Miri itself, independently of the ledger.
# Writes <summary.json>; on a Miri error also writes a replay file and records it in the summary.
# exit 0 = summary written (clean or with a violation recorded in it); 2 = harness error.
set -u
cd "$(dirname "$0")"
summary="$1"; seed="${2:-1}"; shards="${3:-16}"; per="${4:-250}"
replays="${VERIF_REPLAYS:-/verif/replays}"
export CARGO_NET_OFFLINE=true
# The aliasing model (Stacked Borrows) is switched off: it decides nothing about C18, and a tree
# with an aliasing-only defect would otherwise stop every shard at once. Validity (dangling Box),
# bounds, use-after-free, double free and leak checking stay on.
MFLAGS="-Zmiri-disable-stacked-borrows"
scratch="$(mktemp -d "${TMPDIR:-/tmp}/vek-miri.XXXXXX")"
trap 'rm -rf "$scratch"' EXIT
t0=$(date +%s.%N)
cd sim
# build once (also proves the toolchain is usable); --count 0 executes nothing
if ! MIRIFLAGS="$MFLAGS" cargo +nightly miri run --offline -- miri --count 0 > "$scratch/build.out" 2> "$scratch/build.err"; then
  cat "$scratch/build.err" >&2
  echo "harness error: the simulator does not build / start under Miri" >&2
  exit 2
fi
# Which Miri diagnostics are C18 violations (DESIGN.md 3.12): an element read, dropped or freed after
# it was moved out / destroyed (dangling, use-after-free, double free), a read outside the
# container (out-of-bounds), an element never destroyed (memory leaked). Any other diagnostic
# (aliasing-model violations, uninitialised reads, ...) is something C18 does not state: it is
# reported as a note, the shard resumes after the run that tripped it, and the check does not fail.
C18_DIAG='dangling|use-after-free|has been freed|out-of-bounds|memory leaked|double free'

run_shard() {
  local i="$1" start="$2" count="$3" attempt=0
  : > "$scratch/s$i.notes"
  while :; do
    MIRIFLAGS="$MFLAGS" cargo +nightly miri run --offline -- miri --seed "$seed" --start "$start" --count "$count" > "$scratch/s$i.out.$attempt" 2> "$scratch/s$i.err"
    local rc=$?
    cat "$scratch/s$i.out.$attempt" >> "$scratch/s$i.out"
    if [ $rc -eq 0 ]; then echo 0 > "$scratch/s$i.rc"; return; fi
    if grep -q '^LEDGER-VIOLATION' "$scratch/s$i.out.$attempt" || grep -E 'error: ' "$scratch/s$i.err" | grep -qE "$C18_DIAG"; then echo $rc > "$scratch/s$i.rc"; return; fi
    if grep -qE 'error: (Undefined Behavior|unsupported operation|abnormal termination)' "$scratch/s$i.err" && [ $attempt -lt 8 ]; then
      local run; run=$(grep '^RUN ' "$scratch/s$i.out.$attempt" | tail -1 | awk '{print $2}')
      [ -z "$run" ] && { echo $rc > "$scratch/s$i.rc"; return; }
      echo "run $run: $(grep -E 'error: ' "$scratch/s$i.err" | head -1)" >> "$scratch/s$i.notes"
      local done_n=$((run + 1 - start)); start=$((run + 1)); count=$((count - done_n)); attempt=$((attempt+1))
      [ $count -le 0 ] && { echo 0 > "$scratch/s$i.rc"; echo "MIRI-SUMMARY executed=0 skipped=0 steps=0 drops=0 touches=0 panics_fired=0" >> "$scratch/s$i.out"; return; }
      continue
    fi
    if grep -qE 'error: (Undefined Behavior|unsupported operation|abnormal termination)' "$scratch/s$i.err"; then
      # too many runs of this shard stop on diagnostics outside C18: give the shard up, say so
      echo "shard $i gave up after $attempt restarts (diagnostics outside C18 keep stopping it); $count run(s) of its window were not interpreted" >> "$scratch/s$i.notes"
      echo 0 > "$scratch/s$i.rc"; echo "MIRI-SUMMARY executed=0 skipped=0 steps=0 drops=0 touches=0 panics_fired=0" >> "$scratch/s$i.out"; return
    fi
    echo $rc > "$scratch/s$i.rc"; return
  done
}
# the native run indices start at 0; the Miri shards take disjoint windows of the same stream
for i in $(seq 0 $((shards-1))); do
  run_shard "$i" $((i*per)) "$per" &
done
wait
cd ..
executed=0; skipped=0; steps=0; drops=0; touches=0; panics=0
viol_run=""; viol_diag=""; viol_shard=""
for i in $(seq 0 $((shards-1))); do
  rc=$(cat "$scratch/s$i.rc" 2>/dev/null || echo 99)
  if [ "$rc" = "0" ]; then
    line=$(grep '^MIRI-SUMMARY' "$scratch/s$i.out" | tr '\n' ' ')
    if [ -z "$line" ]; then echo "harness error: Miri shard $i exited 0 without a summary" >&2; exit 2; fi
    for kv in $line; do
      case "$kv" in
        executed=*) executed=$((executed+${kv#*=}));;
        skipped=*) skipped=$((skipped+${kv#*=}));;
        steps=*) steps=$((steps+${kv#*=}));;
        drops=*) drops=$((drops+${kv#*=}));;
        touches=*) touches=$((touches+${kv#*=}));;
        panics_fired=*) panics=$((panics+${kv#*=}));;
      esac
    done
    continue
  fi
  run=$(grep '^RUN ' "$scratch/s$i.out" | tail -1 | awk '{print $2}')
  if grep -q '^LEDGER-VIOLATION' "$scratch/s$i.out"; then
    diag="ledger violation while interpreting under Miri: $(grep '^LEDGER-VIOLATION' "$scratch/s$i.out" | head -1)"
  elif grep -E 'error: ' "$scratch/s$i.err" | grep -qE "$C18_DIAG"; then
    diag=$(grep -E 'error: ' "$scratch/s$i.err" | grep -E "$C18_DIAG" | head -1)
  else
    tail -30 "$scratch/s$i.err" >&2
    echo "harness error: Miri shard $i failed (exit $rc) without a diagnostic this script understands" >&2
    exit 2
  fi
  if [ -z "$viol_run" ] || [ "$run" -lt "$viol_run" ]; then viol_run="$run"; viol_diag="$diag"; viol_shard="$i"; fi
done
t1=$(date +%s.%N)
wall=$(echo "$t1 - $t0" | bc)
notes_json=$(cat "$scratch"/s*.notes 2>/dev/null | python3 -c 'import json,sys; print(json.dumps([l.strip() for l in sys.stdin if l.strip()][:40]))')
n_notes=$(cat "$scratch"/s*.notes 2>/dev/null | grep -c . || true)
if [ "${n_notes:-0}" -gt 0 ]; then
  echo "Miri pass note: $n_notes run(s) stopped on a diagnostic that is outside C18 (aliasing model, uninitialised read, ...); not a C18 violation, the shards resumed after them:"
  cat "$scratch"/s*.notes | head -5
fi
viol_json="null"
if [ -n "$viol_run" ]; then
  mkdir -p "$replays"
  rp="$replays/C18-miri-$seed-$viol_run.json"
  plan=$(sim/target/release/vek-sim gen --seed "$seed" --run "$viol_run" --miri)
  python3 - "$rp" "$seed" "$viol_run" "$viol_diag" <<P || { echo "harness error: cannot write the Miri replay file" >&2; exit 2; }
import json,sys
plan=json.loads('''$plan''')
rp,seed,run,diag=sys.argv[1],int(sys.argv[2]),int(sys.argv[3]),sys.argv[4]
j={"property":"C18","seed":seed,"run":run,"executor":"miri","container":plan["container"],"class":plan["class"],"ops":plan["ops"],
   "violation":{"class":"V12-miri-undefined-behaviour","code":12,"step":"end-of-run","op":"quiescence","detail":diag},
   "minimised":False,"original_len":len(plan["ops"]),"candidates_tried":0,"digest":"0"}
json.dump(j,open(rp,"w"),indent=1)
P
  echo "Miri reported an error in run $viol_run of seed $seed (shard $viol_shard): $viol_diag"
  sed -n '/error: /,$p' "$scratch/s$viol_shard.err" | head -40
  viol_json=$(python3 -c 'import json,sys; print(json.dumps({"run":int(sys.argv[1]),"replay":sys.argv[2],"diagnostic":sys.argv[3]}))' "$viol_run" "$rp" "$viol_diag")
fi
cat > "$summary" <<J
{
 "executor": "cargo +nightly miri run -Zmiri-disable-stacked-borrows (interpreter; validity, bounds, use-after-free, double-free and leak checks on; aliasing model off because C18 does not state it; isolation on)",
 "seed": $seed,
 "shards": $shards,
 "run_index_windows": "shard i interprets runs [i*$per, (i+1)*$per) of the same seeded plan stream as the native search",
 "histories_interpreted": $executed,
 "histories_skipped": $skipped,
 "skip_rule": "plans that pass through {from,into}_{row,col}_array(s) are skipped (those functions mem::replace into uninitialised storage, which Miri rejects for a reason outside C18); forget and drop-panic annotations are replaced by their leak-free form so that the leak check stays on",
 "simulated_steps": $steps,
 "element_drops": $drops,
 "element_touches": $touches,
 "injected_panics_fired": $panics,
 "wall_s": $wall,
 "diagnostics_mapped_to_C18": "dangling / use-after-free / freed / double free, out-of-bounds, memory leaked",
 "other_diagnostics_noted_not_failed": $notes_json,
 "violation": $viol_json
}
J
echo "Miri pass: $executed histories interpreted in $shards shards ($skipped skipped), $steps steps, ${wall}s; $( [ -n "$viol_run" ] && echo "ERROR in run $viol_run" || echo clean )"
exit 0
