#!/bin/bash
# miri_pass.sh <summary.json> [seed] [shards] [runs-per-shard]
# Second executor of the thorough tier (DESIGN.md 3.12): the same seeded plans as the native
# search, interpreted by Miri in <shards> parallel single-threaded processes. Under cfg(miri)
# every element owns a heap cell, so a read after move, a double drop, an out-of-bounds read or
# a leak is reported by Miri itself, independently of the ledger.
# Writes <summary.json>; on a Miri error also writes a replay file and records it in the summary.
# exit 0 = summary written (clean or with a violation recorded in it); 2 = harness error.
set -u
cd "$(dirname "$0")"
summary="$1"; seed="${2:-1}"; shards="${3:-16}"; per="${4:-250}"
replays="${VERIF_REPLAYS:-/verif/replays}"
export CARGO_NET_OFFLINE=true
scratch="$(mktemp -d "${TMPDIR:-/tmp}/vek-miri.XXXXXX")"
trap 'rm -rf "$scratch"' EXIT
t0=$(date +%s.%N)
cd sim
# build once (also proves the toolchain is usable); --count 0 executes nothing
if ! MIRIFLAGS="" cargo +nightly miri run --offline -- miri --count 0 > "$scratch/build.out" 2> "$scratch/build.err"; then
  cat "$scratch/build.err" >&2
  echo "harness error: the simulator does not build / start under Miri" >&2
  exit 2
fi
# the native run indices start at 0; the Miri shards take disjoint windows of the same stream
for i in $(seq 0 $((shards-1))); do
  start=$((i*per))
  ( MIRIFLAGS="" cargo +nightly miri run --offline -- miri --seed "$seed" --start "$start" --count "$per" > "$scratch/s$i.out" 2> "$scratch/s$i.err"; echo $? > "$scratch/s$i.rc" ) &
done
wait
cd ..
executed=0; skipped=0; steps=0; drops=0; touches=0; panics=0
viol_run=""; viol_diag=""; viol_shard=""
for i in $(seq 0 $((shards-1))); do
  rc=$(cat "$scratch/s$i.rc" 2>/dev/null || echo 99)
  if [ "$rc" = "0" ]; then
    line=$(grep '^MIRI-SUMMARY' "$scratch/s$i.out" | tail -1)
    if [ -z "$line" ]; then echo "harness error: Miri shard $i exited 0 without a summary" >&2; exit 2; fi
    for kv in $line; do
      case "$kv" in
        executed=*) executed=$((executed+${kv#*=}));;
        skipped=*) skipped=$((skipped+${kv#*=}));;
        steps=*) steps=$((steps+${kv#*=}));;
        drops=*) drops=$((drops+${kv#*=}));;
        touches=*) touches=$((touches+${kv#*=}));;
        panics_fired=*) panics=$((panics+${kv#*=}));;
      esac
    done
    continue
  fi
  run=$(grep '^RUN ' "$scratch/s$i.out" | tail -1 | awk '{print $2}')
  if grep -q '^LEDGER-VIOLATION' "$scratch/s$i.out"; then
    diag="ledger violation while interpreting under Miri: $(grep '^LEDGER-VIOLATION' "$scratch/s$i.out" | head -1)"
  elif grep -qE 'Undefined Behavior|memory leaked' "$scratch/s$i.err"; then
    diag=$(grep -E 'error: (Undefined Behavior|memory leaked)' "$scratch/s$i.err" | head -1)
  else
    tail -30 "$scratch/s$i.err" >&2
    echo "harness error: Miri shard $i failed (exit $rc) without an undefined-behaviour or leak diagnostic" >&2
    exit 2
  fi
  if [ -z "$viol_run" ] || [ "$run" -lt "$viol_run" ]; then viol_run="$run"; viol_diag="$diag"; viol_shard="$i"; fi
done
t1=$(date +%s.%N)
wall=$(echo "$t1 - $t0" | bc)
viol_json="null"
if [ -n "$viol_run" ]; then
  mkdir -p "$replays"
  rp="$replays/C18-miri-$seed-$viol_run.json"
  plan=$(sim/target/release/vek-sim gen --seed "$seed" --run "$viol_run" --miri)
  python3 - "$rp" "$seed" "$viol_run" "$viol_diag" <<P || { echo "harness error: cannot write the Miri replay file" >&2; exit 2; }
import json,sys
plan=json.loads('''$plan''')
rp,seed,run,diag=sys.argv[1],int(sys.argv[2]),int(sys.argv[3]),sys.argv[4]
j={"property":"C18","seed":seed,"run":run,"executor":"miri","container":plan["container"],"class":plan["class"],"ops":plan["ops"],
   "violation":{"class":"V12-miri-undefined-behaviour","code":12,"step":"end-of-run","op":"quiescence","detail":diag},
   "minimised":False,"original_len":len(plan["ops"]),"candidates_tried":0,"digest":"0"}
json.dump(j,open(rp,"w"),indent=1)
P
  echo "Miri reported an error in run $viol_run of seed $seed (shard $viol_shard): $viol_diag"
  sed -n '/error: /,$p' "$scratch/s$viol_shard.err" | head -40
  viol_json=$(python3 -c 'import json,sys; print(json.dumps({"run":int(sys.argv[1]),"replay":sys.argv[2],"diagnostic":sys.argv[3]}))' "$viol_run" "$rp" "$viol_diag")
fi
cat > "$summary" <<J
{
 "executor": "cargo +nightly miri run (interpreter; Stacked Borrows, leak check on, isolation on)",
 "seed": $seed,
 "shards": $shards,
 "run_index_windows": "shard i interprets runs [i*$per, (i+1)*$per) of the same seeded plan stream as the native search",
 "histories_interpreted": $executed,
 "histories_skipped": $skipped,
 "skip_rule": "plans that pass through {from,into}_{row,col}_array(s) are skipped (those functions mem::replace into uninitialised storage, which Miri rejects for a reason outside C18); forget and drop-panic annotations are replaced by their leak-free form so that the leak check stays on",
 "simulated_steps": $steps,
 "element_drops": $drops,
 "element_touches": $touches,
 "injected_panics_fired": $panics,
 "wall_s": $wall,
 "violation": $viol_json
}
J
echo "Miri pass: $executed histories interpreted in $shards shards ($skipped skipped), $steps steps, ${wall}s; $( [ -n "$viol_run" ] && echo "ERROR in run $viol_run" || echo clean )"
exit 0
