//! One adapter per vek container type: the thin, mechanical layer through which the generic
//! executor reaches the *real* vek API (constructors, conversions, public fields, slice views,
//! consuming iterator). Nothing here decides anything.

use std::borrow::{Borrow, BorrowMut};
use std::fmt::Debug;
use std::hash::Hash;

use crate::tok::{self, Tok};

/// ids of the ownership-tracked elements inside one container element
/// (1 for `Tok`, n for a row/column vector `VecN<Tok>` of a matrix).
#[derive(Clone, Copy, PartialEq, Eq, Debug)]
pub struct Grp {
    pub n: u8,
    pub ids: [u32; 4],
}
impl Grp {
    pub const EMPTY: Grp = Grp { n: 0, ids: [0; 4] };
    pub fn one(id: u32) -> Grp {
        Grp { n: 1, ids: [id, 0, 0, 0] }
    }
    #[inline]
    pub fn iter(&self) -> impl Iterator<Item = u32> + '_ {
        self.ids[..self.n as usize].iter().copied()
    }
    pub fn set_owner(&self, o: u8) {
        for id in self.iter() {
            tok::set_owner(id, o);
        }
    }
    pub fn first(&self) -> u32 {
        self.ids[0]
    }
}

/// Operator forms whose *left* operand is a reference (`&v + w`, `&v + &w`): they need
/// `&T: Add<..>`, which generic code cannot name, so each concrete leaf element type hands out
/// function pointers instantiated at the concrete vector type.
pub struct RefOps<V, X> {
    pub ref_add_val: fn(&V, V) -> V,
    pub ref_add_ref: fn(&V, &V) -> V,
    /// `v.reduce_min()`, `reduce_max`, `reduce_partial_min`, `reduce_partial_max` (`T: Ord` / `PartialOrd`): one
    /// element is chosen and returned, the others are destroyed
    pub reduce_ord: [fn(V) -> X; 4],
    /// `V::min(a, b)`, `max`, `partial_min`, `partial_max`: lane by lane one of the two is kept, the other destroyed
    pub pick_ord: [fn(V, V) -> V; 4],
}
macro_rules! ref_ops_decl {
    ($($m:ident $Vec:ident),+) => {
        $(fn $m() -> Option<RefOps<vek::vec::repr_c::$Vec<Self>, Self>> { None })+
    };
}
macro_rules! ref_ops_impl {
    ($($m:ident $Vec:ident),+) => {
        $(fn $m() -> Option<RefOps<vek::vec::repr_c::$Vec<Self>, Self>> {
            use vek::vec::repr_c::$Vec as V;
            Some(RefOps {
                ref_add_val: |a, b| a + b,
                ref_add_ref: |a, b| a + b,
                reduce_ord: [|v| v.reduce_min(), |v| v.reduce_max(), |v| v.reduce_partial_min(), |v| v.reduce_partial_max()],
                pick_ord: [|a, b| V::min(a, b), |a, b| V::max(a, b), |a, b| V::partial_min(a, b), |a, b| V::partial_max(a, b)],
            })
        })+
    };
}
macro_rules! ref_ops_all {
    ($mac:ident) => {
        $mac!(ro_vec2 Vec2, ro_vec3 Vec3, ro_vec4 Vec4, ro_vec8 Vec8, ro_vec16 Vec16, ro_vec32 Vec32, ro_vec64 Vec64, ro_extent2 Extent2, ro_extent3 Extent3, ro_rgb Rgb, ro_rgba Rgba, ro_uv Uv, ro_uvw Uvw);
    };
}

/// What the element type of a container under test must provide to the harness.
pub trait Item:
    Sized
    + Debug
    + std::fmt::Display
    + Hash
    + PartialEq
    + Default
    + Clone
    + std::ops::Add<Self, Output = Self>
    + for<'a> std::ops::Add<&'a Self, Output = Self>
    + std::ops::Mul<Self, Output = Self>
    + std::ops::Sub<Self, Output = Self>
    + std::ops::Div<Self, Output = Self>
    + std::ops::Rem<Self, Output = Self>
    + std::ops::BitAnd<Self, Output = Self>
    + std::ops::BitOr<Self, Output = Self>
    + std::ops::BitXor<Self, Output = Self>
    + std::ops::Shl<Self, Output = Self>
    + std::ops::Shr<Self, Output = Self>
    + std::ops::AddAssign<Self>
    + std::ops::SubAssign<Self>
    + std::ops::MulAssign<Self>
    + std::ops::DivAssign<Self>
    + std::ops::RemAssign<Self>
    + std::ops::BitAndAssign<Self>
    + std::ops::BitOrAssign<Self>
    + std::ops::BitXorAssign<Self>
    + std::ops::ShlAssign<Self>
    + std::ops::ShrAssign<Self>
    + std::ops::Neg<Output = Self>
    + std::ops::Not<Output = Self>
    + vek::num_traits::MulAdd<Self, Self, Output = Self>
    + vek::num_traits::Zero
    + vek::num_traits::One
    + 'static
{
    const W: usize;
    /// Read the ids through plain field access (no callback) and validate them (V2).
    fn grp(&self) -> Grp;
    /// `pos` determines the payload so that a twin built the same way compares equal.
    fn fresh(pos: u32, owner: u8) -> Self;
    /// The ownership-tracked element at the bottom (`Self` for a leaf, the component type for a
    /// row/column vector).
    type Leaf: Leaf;
    /// For row/column vectors of a matrix: the consuming iterator over the line itself.
    type Inner: Iterator<Item = Self::Leaf> + DoubleEndedIterator + ExactSizeIterator + Debug + Hash + PartialEq + 'static;
    fn into_inner(self) -> Result<Self::Inner, Self>;
    ref_ops_all!(ref_ops_decl);
}

/// A single tracked element (as opposed to a row/column vector of them).
pub trait Leaf: Item {
    fn lid(&self) -> u32;
    fn lval(&self) -> u32;
    fn mk(val: u32, owner: u8) -> Self;
}
impl Leaf for Tok {
    #[inline]
    fn lid(&self) -> u32 {
        self.id
    }
    #[inline]
    fn lval(&self) -> u32 {
        self.val
    }
    fn mk(val: u32, owner: u8) -> Self {
        Tok::new(val, owner)
    }
}
impl Leaf for Wide {
    #[inline]
    fn lid(&self) -> u32 {
        self.inner.id
    }
    #[inline]
    fn lval(&self) -> u32 {
        self.inner.val
    }
    fn mk(val: u32, owner: u8) -> Self {
        Wide::wrap(Tok::new(val, owner))
    }
}
impl Leaf for tok::Plain {
    #[inline]
    fn lid(&self) -> u32 {
        self.id
    }
    #[inline]
    fn lval(&self) -> u32 {
        self.val
    }
    fn mk(val: u32, owner: u8) -> Self {
        tok::Plain::new(val, owner)
    }
}

/// Placeholder inner iterator for element types that are not themselves containers.
pub struct NoInner<L>(std::marker::PhantomData<L>);
impl<L> Debug for NoInner<L> {
    fn fmt(&self, f: &mut std::fmt::Formatter<'_>) -> std::fmt::Result {
        f.write_str("NoInner")
    }
}
impl<L> Hash for NoInner<L> {
    fn hash<H: std::hash::Hasher>(&self, _: &mut H) {}
}
impl<L> PartialEq for NoInner<L> {
    fn eq(&self, _: &Self) -> bool {
        true
    }
}
impl<L> Iterator for NoInner<L> {
    type Item = L;
    fn next(&mut self) -> Option<L> {
        None
    }
    fn size_hint(&self) -> (usize, Option<usize>) {
        (0, Some(0))
    }
}
impl<L> DoubleEndedIterator for NoInner<L> {
    fn next_back(&mut self) -> Option<L> {
        None
    }
}
impl<L> ExactSizeIterator for NoInner<L> {}

impl Item for Tok {
    const W: usize = 1;
    #[inline]
    fn grp(&self) -> Grp {
        tok::check_read("read", self.id, self.val);
        Grp::one(self.id)
    }
    fn fresh(pos: u32, owner: u8) -> Self {
        Tok::new(pos * 4, owner)
    }
    type Leaf = Tok;
    type Inner = NoInner<Tok>;
    fn into_inner(self) -> Result<NoInner<Tok>, Self> {
        Err(self)
    }
    ref_ops_all!(ref_ops_impl);
}

/// A second element shape (swarm dimension "element layout"): large (256 bytes), 16-byte aligned, with padding
/// bytes in front of the tracked payload, so that code which assumes a particular element size,
/// alignment or field offset reads something the ledger does not recognise. All callbacks
/// delegate to the inner `Tok`, which reports to the ledger as usual.
#[repr(C, align(16))]
pub struct Wide {
    pub pad: u8,
    pub inner: Tok,
    /// makes the element large (256 bytes in all): code that picks a different strategy for
    /// elements above some size takes that branch; the last byte is a sentinel checked on every read
    pub tail: [u8; WIDE_TAIL],
}
pub const WIDE_TAIL: usize = 240;
const WIDE_TAIL_INIT: [u8; WIDE_TAIL] = {
    let mut t = [0x3Cu8; WIDE_TAIL];
    t[WIDE_TAIL - 1] = 0x5A;
    t
};
impl Wide {
    #[inline]
    pub fn wrap(inner: Tok) -> Wide {
        Wide { pad: 0xA5, inner, tail: WIDE_TAIL_INIT }
    }
}
impl Debug for Wide {
    fn fmt(&self, f: &mut std::fmt::Formatter<'_>) -> std::fmt::Result {
        Debug::fmt(&self.inner, f)
    }
}
impl std::fmt::Display for Wide {
    fn fmt(&self, f: &mut std::fmt::Formatter<'_>) -> std::fmt::Result {
        std::fmt::Display::fmt(&self.inner, f)
    }
}
impl Hash for Wide {
    fn hash<H: std::hash::Hasher>(&self, state: &mut H) {
        self.inner.hash(state)
    }
}
impl PartialEq for Wide {
    fn eq(&self, o: &Wide) -> bool {
        self.inner == o.inner
    }
}
impl PartialOrd for Wide {
    fn partial_cmp(&self, o: &Wide) -> Option<std::cmp::Ordering> {
        self.inner.partial_cmp(&o.inner)
    }
}
impl Eq for Wide {}
impl Ord for Wide {
    fn cmp(&self, o: &Wide) -> std::cmp::Ordering {
        self.inner.cmp(&o.inner)
    }
}
impl Default for Wide {
    fn default() -> Wide {
        Wide::wrap(Tok::default())
    }
}
impl Clone for Wide {
    fn clone(&self) -> Wide {
        Wide { pad: self.pad, inner: self.inner.clone(), tail: self.tail }
    }
}
// arithmetic (operation `VArith`): delegate to the tracked payload, keep this element's own shell
impl<'a> std::ops::Add<&'a Wide> for Wide {
    type Output = Wide;
    fn add(self, rhs: &'a Wide) -> Wide {
        Wide::wrap(self.inner + &rhs.inner)
    }
}
impl<'a> std::ops::Add<Wide> for &'a Wide {
    type Output = Wide;
    fn add(self, rhs: Wide) -> Wide {
        Wide::wrap(&self.inner + rhs.inner)
    }
}
impl<'a, 'b> std::ops::Add<&'b Wide> for &'a Wide {
    type Output = Wide;
    fn add(self, rhs: &'b Wide) -> Wide {
        Wide::wrap(&self.inner + &rhs.inner)
    }
}
macro_rules! wide_binop {
    ($($Tr:ident $m:ident),+) => {$(
        impl std::ops::$Tr<Wide> for Wide {
            type Output = Wide;
            fn $m(self, rhs: Wide) -> Wide {
                Wide::wrap(std::ops::$Tr::$m(self.inner, rhs.inner))
            }
        }
    )+};
}
macro_rules! wide_assign {
    ($($Tr:ident $m:ident),+) => {$(
        impl std::ops::$Tr<Wide> for Wide {
            fn $m(&mut self, rhs: Wide) {
                std::ops::$Tr::$m(&mut self.inner, rhs.inner);
            }
        }
    )+};
}
wide_binop!(Add add, Sub sub, Mul mul, Div div, Rem rem, BitAnd bitand, BitOr bitor, BitXor bitxor, Shl shl, Shr shr);
wide_assign!(AddAssign add_assign, SubAssign sub_assign, MulAssign mul_assign, DivAssign div_assign, RemAssign rem_assign, BitAndAssign bitand_assign, BitOrAssign bitor_assign, BitXorAssign bitxor_assign, ShlAssign shl_assign, ShrAssign shr_assign);
impl std::ops::Not for Wide {
    type Output = Wide;
    fn not(self) -> Wide {
        Wide::wrap(!self.inner)
    }
}
impl std::ops::Neg for Wide {
    type Output = Wide;
    fn neg(self) -> Wide {
        Wide::wrap(-self.inner)
    }
}
impl vek::num_traits::MulAdd<Wide, Wide> for Wide {
    type Output = Wide;
    fn mul_add(self, a: Wide, b: Wide) -> Wide {
        Wide::wrap(vek::num_traits::MulAdd::mul_add(self.inner, a.inner, b.inner))
    }
}
impl vek::num_traits::Zero for Wide {
    fn zero() -> Wide {
        Wide::default()
    }
    fn is_zero(&self) -> bool {
        vek::num_traits::Zero::is_zero(&self.inner)
    }
}
impl vek::num_traits::One for Wide {
    fn one() -> Wide {
        Wide::default()
    }
}
impl Item for Wide {
    const W: usize = 1;
    #[inline]
    fn grp(&self) -> Grp {
        if self.pad != 0xA5 || self.tail[WIDE_TAIL - 1] != 0x5A || self.tail[0] != 0x3C {
            tok::raise(tok::V2_UNKNOWN_ELEMENT, "an element's padding byte was overwritten or read at the wrong offset (torn read)".to_string());
        }
        tok::check_read("read", self.inner.id, self.inner.val);
        Grp::one(self.inner.id)
    }
    fn fresh(pos: u32, owner: u8) -> Self {
        Wide::wrap(Tok::new(pos * 4, owner))
    }
    type Leaf = Wide;
    type Inner = NoInner<Wide>;
    fn into_inner(self) -> Result<NoInner<Wide>, Self> {
        Err(self)
    }
    ref_ops_all!(ref_ops_impl);
}

impl Item for tok::Plain {
    const W: usize = 1;
    #[inline]
    fn grp(&self) -> Grp {
        tok::check_read("read", self.id, self.val);
        Grp::one(self.id)
    }
    fn fresh(pos: u32, owner: u8) -> Self {
        tok::Plain::new(pos * 4, owner)
    }
    type Leaf = tok::Plain;
    type Inner = NoInner<tok::Plain>;
    fn into_inner(self) -> Result<NoInner<tok::Plain>, Self> {
        Err(self)
    }
    ref_ops_all!(ref_ops_impl);
}

macro_rules! item_vec {
    ($Vec:ident, $n:expr, [$($f:ident)+], [$($i:tt)+]) => {
        impl<L: Leaf> Item for vek::vec::repr_c::$Vec<L> {
            const W: usize = $n;
            #[inline]
            fn grp(&self) -> Grp {
                let mut g = Grp { n: $n, ids: [0; 4] };
                $(
                    g.ids[$i] = self.$f.grp().first();
                )+
                g
            }
            fn fresh(pos: u32, owner: u8) -> Self {
                vek::vec::repr_c::$Vec::new($(L::mk(pos * 4 + $i, owner)),+)
            }
            type Leaf = L;
            type Inner = <vek::vec::repr_c::$Vec<L> as IntoIterator>::IntoIter;
            fn into_inner(self) -> Result<Self::Inner, Self> {
                Ok(self.into_iter())
            }
        }
    };
}
item_vec!(Vec2, 2, [x y], [0 1]);
item_vec!(Vec3, 3, [x y z], [0 1 2]);
item_vec!(Vec4, 4, [x y z w], [0 1 2 3]);

// slice-view routes (immutable)
pub const VIA_AS_SLICE: u8 = 0;
pub const VIA_AS_REF: u8 = 1;
pub const VIA_BORROW: u8 = 2;
pub const VIA_DEREF: u8 = 3;
pub const VIA_REF_INTO_ITER: u8 = 4; // (&v).into_iter().as_slice()
pub const VIA_ITER: u8 = 5; // v.iter().as_slice()
pub const N_VIA: u8 = 6;
pub fn via_name(v: u8, mutable: bool) -> &'static str {
    match (v, mutable) {
        (0, false) => "as_slice",
        (1, false) => "AsRef<[T]>",
        (2, false) => "Borrow<[T]>",
        (3, false) => "Deref",
        (4, false) => "(&v).into_iter()",
        (5, false) => "v.iter()",
        (0, true) => "as_mut_slice",
        (1, true) => "AsMut<[T]>",
        (2, true) => "BorrowMut<[T]>",
        (3, true) => "DerefMut",
        (4, true) => "(&mut v).into_iter()",
        (5, true) => "v.iter_mut()",
        _ => "?",
    }
}

/// Copy element for `from_slice` (which needs `T: Default + Copy`): its `Default` is a
/// recognisable non-zero value, so "filled with defaults" cannot be confused with zeroed memory.
#[derive(Clone, Copy, PartialEq, Debug)]
pub struct C32(pub u32);
pub const C32_DEFAULT: u32 = 0x00DE_FA17;
impl Default for C32 {
    fn default() -> C32 {
        C32(C32_DEFAULT)
    }
}

/// One composed kind / size conversion: where each position of the result comes from
/// (`i >= 0`: the value's own element i; `-(j+1)`: the j-th extra element handed in). Every own or
/// extra element that does not appear in `result` must be destroyed exactly once by the conversion.
/// `KcSpec::result` entry: a fresh element the conversion itself creates with `T::zero()`
pub const KC_ZERO: i8 = -100;
pub struct KcSpec {
    pub name: &'static str,
    pub extras: usize,
    pub result: &'static [i8],
}

/// A vek vector type instantiated at element type `X`.
pub trait Kind<X: Item>: 'static {
    const N: usize;
    const NAME: &'static str;
    type V: 'static;
    type Arr: 'static;
    type Tup: 'static;
    type It: Iterator<Item = X> + DoubleEndedIterator + ExactSizeIterator + Debug + Hash + PartialEq + 'static;

    // --- harness-side plumbing (std only) ---
    fn arr_from_vec(v: Vec<X>) -> Self::Arr;
    fn arr_get(a: &Self::Arr, i: usize) -> &X;
    fn arr_drain(a: Self::Arr, out: &mut std::collections::VecDeque<X>);
    fn tup_from_arr(a: Self::Arr) -> Self::Tup;
    fn arr_from_tup(t: Self::Tup) -> Self::Arr;
    fn tup_get(t: &Self::Tup, i: usize) -> &X;

    // --- real vek code ---
    fn v_from_arr(a: Self::Arr) -> Self::V;
    fn v_into_arr(v: Self::V) -> Self::Arr;
    fn v_from_tup(t: Self::Tup) -> Self::V;
    fn v_into_tup(v: Self::V) -> Self::Tup;
    fn v_new(a: Self::Arr) -> Self::V;
    fn v_default() -> Self::V;
    fn v_from_iter<I: Iterator<Item = X>>(i: I) -> Self::V;
    fn v_into_iter(v: Self::V) -> Self::It;
    /// the way a `for` loop obtains the iterator: through the trait, never an inherent method
    fn v_into_iter_trait(v: Self::V) -> Self::It;
    fn v_slice(v: &Self::V, via: u8) -> &[X];
    fn v_slice_mut(v: &mut Self::V, via: u8) -> &mut [X];
    fn v_observe_debug(v: &Self::V) -> usize;
    fn v_observe_hash(v: &Self::V) -> u64;
    fn v_observe_eq(a: &Self::V, b: &Self::V) -> bool;
    fn v_observe_display(v: &Self::V) -> usize;
    fn v_clone(v: &Self::V) -> Self::V;
    fn v_clone_from(dst: &mut Self::V, src: &Self::V);
    /// `v.map(f)` with `f: FnMut(X) -> X`
    fn v_map<F: FnMut(X) -> X>(v: Self::V, f: F) -> Self::V;
    /// `a.zip(b).map(|(x, y)| f(x, y))`
    fn v_zip_map<F: FnMut(X, X) -> X>(a: Self::V, b: Self::V, f: F) -> Self::V;
    /// `a.map2(b, f)`
    fn v_map2<F: FnMut(X, X) -> X>(a: Self::V, b: Self::V, f: F) -> Self::V;
    /// `a.map3(b, c, f)`
    fn v_map3<F: FnMut(X, X, X) -> X>(a: Self::V, b: Self::V, c: Self::V, f: F) -> Self::V;
    /// `v.reduce(f)`
    fn v_reduce<F: FnMut(X, X) -> X>(v: Self::V, f: F) -> X;
    // element-wise arithmetic with an element type that is not Copy (operation `VArith`)
    fn v_add(a: Self::V, b: Self::V) -> Self::V;
    /// one of the ten binary operators of the shared macro, by value: + - * / % & | ^ << >>
    fn v_binop(a: Self::V, b: Self::V, which: u32) -> Self::V;
    /// the compound-assignment form of the same ten
    fn v_assign(a: &mut Self::V, b: Self::V, which: u32);
    /// - or !
    fn v_unop(a: Self::V, which: u32) -> Self::V;
    fn v_add_arr(a: Self::V, b: Self::Arr) -> Self::V;
    fn v_mul_tup(a: Self::V, b: Self::Tup) -> Self::V;
    fn v_add_ref(a: Self::V, b: &Self::V) -> Self::V;
    fn v_add_assign(a: &mut Self::V, b: Self::V);
    fn v_neg(a: Self::V) -> Self::V;
    fn v_mul_add(a: Self::V, b: Self::V, c: Self::V) -> Self::V;
    fn v_sum_of<I: Iterator<Item = Self::V>>(i: I) -> Self::V;
    fn v_product_of<I: Iterator<Item = Self::V>>(i: I) -> Self::V;
    fn v_elem_sum(a: Self::V) -> X;
    fn v_elem_product(a: Self::V) -> X;
    /// `&v + w`, `&v + &w` (only for the concrete leaf element types)
    fn ref_ops() -> Option<RefOps<Self::V, X>>;
    /// kind / size conversions available for this vector type with no bound on the element type
    /// (`From<other kind>`, `From<(smaller, scalar)>`, truncating `From<larger>`), each composed so
    /// that it ends in this type again
    fn kc_specs() -> &'static [KcSpec];
    fn v_kind_conv(v: Self::V, variant: usize, extras: Vec<X>) -> Self::V;
    /// `V::<u32>::from_slice(s)` read back through the public fields in declaration order.
    fn from_slice_u32(s: &[u32]) -> Vec<u32>;

    // --- ground truth: public fields in declaration order (Rust field semantics) ---
    fn v_field(v: &Self::V, i: usize) -> &X;
}

macro_rules! as_x {
    ($i:tt, $X:ty) => {
        $X
    };
}

macro_rules! kind {
    ($K:ident, $name:expr, $Vec:ident, $ro:ident, $n:expr, [$($f:tt)+], [$($i:tt)+], [$($nm:ident)+]) => {
        pub struct $K;
        impl<X: Item> Kind<X> for $K {
            const N: usize = $n;
            const NAME: &'static str = $name;
            type V = vek::vec::repr_c::$Vec<X>;
            type Arr = [X; $n];
            type Tup = ($(as_x!($i, X)),+);
            type It = <vek::vec::repr_c::$Vec<X> as IntoIterator>::IntoIter;

            fn arr_from_vec(v: Vec<X>) -> Self::Arr {
                match <[X; $n]>::try_from(v) {
                    Ok(a) => a,
                    Err(_) => panic!("harness: wrong element count for {}", $name),
                }
            }
            #[inline]
            fn arr_get(a: &Self::Arr, i: usize) -> &X { &a[i] }
            fn arr_drain(a: Self::Arr, out: &mut std::collections::VecDeque<X>) {
                for x in a { out.push_back(x); }
            }
            fn tup_from_arr(a: Self::Arr) -> Self::Tup {
                let [$($nm),+] = a;
                ($($nm),+)
            }
            fn arr_from_tup(t: Self::Tup) -> Self::Arr {
                let ($($nm),+) = t;
                [$($nm),+]
            }
            #[inline]
            fn tup_get(t: &Self::Tup, i: usize) -> &X {
                match i { $($i => &t.$i,)+ _ => panic!("harness: tuple index") }
            }

            fn v_from_arr(a: Self::Arr) -> Self::V { <Self::V as From<[X; $n]>>::from(a) }
            fn v_into_arr(v: Self::V) -> Self::Arr { v.into_array() }
            fn v_from_tup(t: Self::Tup) -> Self::V { <Self::V as From<Self::Tup>>::from(t) }
            fn v_into_tup(v: Self::V) -> Self::Tup { v.into_tuple() }
            fn v_new(a: Self::Arr) -> Self::V {
                let [$($nm),+] = a;
                vek::vec::repr_c::$Vec::new($($nm),+)
            }
            fn v_default() -> Self::V { <Self::V as Default>::default() }
            fn v_from_iter<I: Iterator<Item = X>>(i: I) -> Self::V {
                <Self::V as std::iter::FromIterator<X>>::from_iter(i)
            }
            fn v_into_iter(v: Self::V) -> Self::It { v.into_iter() }
            fn v_into_iter_trait(v: Self::V) -> Self::It { IntoIterator::into_iter(v) }
            fn v_slice(v: &Self::V, via: u8) -> &[X] {
                match via {
                    VIA_AS_SLICE => v.as_slice(),
                    VIA_AS_REF => <Self::V as AsRef<[X]>>::as_ref(v),
                    VIA_BORROW => <Self::V as Borrow<[X]>>::borrow(v),
                    VIA_DEREF => &**v,
                    VIA_REF_INTO_ITER => (&*v).into_iter().as_slice(),
                    _ => v.iter().as_slice(),
                }
            }
            fn v_slice_mut(v: &mut Self::V, via: u8) -> &mut [X] {
                match via {
                    VIA_AS_SLICE => v.as_mut_slice(),
                    VIA_AS_REF => <Self::V as AsMut<[X]>>::as_mut(v),
                    VIA_BORROW => <Self::V as BorrowMut<[X]>>::borrow_mut(v),
                    VIA_DEREF => &mut **v,
                    VIA_REF_INTO_ITER => (&mut *v).into_iter().into_slice(),
                    _ => v.iter_mut().into_slice(),
                }
            }
            fn v_observe_debug(v: &Self::V) -> usize {
                use std::fmt::Write;
                let mut s = crate::exec::NullWriter(0);
                let _ = write!(s, "{:?}", v);
                s.0
            }
            fn v_observe_hash(v: &Self::V) -> u64 {
                use std::hash::Hasher;
                let mut h = tok::StubHasher::new();
                v.hash(&mut h);
                h.finish()
            }
            fn v_observe_eq(a: &Self::V, b: &Self::V) -> bool { a == b }
            fn v_observe_display(v: &Self::V) -> usize {
                use std::fmt::Write;
                let mut s = crate::exec::NullWriter(0);
                let _ = write!(s, "{}", v);
                s.0
            }
            fn v_clone(v: &Self::V) -> Self::V { v.clone() }
            fn v_clone_from(dst: &mut Self::V, src: &Self::V) { dst.clone_from(src) }
            fn v_map<F: FnMut(X) -> X>(v: Self::V, f: F) -> Self::V { v.map(f) }
            fn v_zip_map<F: FnMut(X, X) -> X>(a: Self::V, b: Self::V, mut f: F) -> Self::V { a.zip(b).map(|(x, y)| f(x, y)) }
            fn v_map2<F: FnMut(X, X) -> X>(a: Self::V, b: Self::V, f: F) -> Self::V { a.map2(b, f) }
            fn v_map3<F: FnMut(X, X, X) -> X>(a: Self::V, b: Self::V, c: Self::V, f: F) -> Self::V { a.map3(b, c, f) }
            fn v_reduce<F: FnMut(X, X) -> X>(v: Self::V, f: F) -> X { v.reduce(f) }
            fn v_add(a: Self::V, b: Self::V) -> Self::V { a + b }
            fn v_binop(a: Self::V, b: Self::V, which: u32) -> Self::V {
                match which % 10 { 0 => a + b, 1 => a - b, 2 => a * b, 3 => a / b, 4 => a % b, 5 => a & b, 6 => a | b, 7 => a ^ b, 8 => a << b, _ => a >> b }
            }
            fn v_assign(a: &mut Self::V, b: Self::V, which: u32) {
                match which % 10 { 0 => *a += b, 1 => *a -= b, 2 => *a *= b, 3 => *a /= b, 4 => *a %= b, 5 => *a &= b, 6 => *a |= b, 7 => *a ^= b, 8 => *a <<= b, _ => *a >>= b }
            }
            fn v_unop(a: Self::V, which: u32) -> Self::V { if which % 2 == 0 { -a } else { !a } }
            fn v_add_arr(a: Self::V, b: Self::Arr) -> Self::V { a + b }
            fn v_mul_tup(a: Self::V, b: Self::Tup) -> Self::V { a * b }
            fn v_add_ref(a: Self::V, b: &Self::V) -> Self::V { a + b }
            fn v_add_assign(a: &mut Self::V, b: Self::V) { *a += b; }
            fn v_neg(a: Self::V) -> Self::V { -a }
            fn v_mul_add(a: Self::V, b: Self::V, c: Self::V) -> Self::V { a.mul_add(b, c) }
            fn v_sum_of<I: Iterator<Item = Self::V>>(i: I) -> Self::V { i.sum() }
            fn v_product_of<I: Iterator<Item = Self::V>>(i: I) -> Self::V { i.product() }
            fn v_elem_sum(a: Self::V) -> X { a.sum() }
            fn v_elem_product(a: Self::V) -> X { a.product() }
            fn ref_ops() -> Option<RefOps<Self::V, X>> { X::$ro() }
            fn kc_specs() -> &'static [KcSpec] { crate::kindconv::$K::SPECS }
            fn v_kind_conv(v: Self::V, variant: usize, extras: Vec<X>) -> Self::V { crate::kindconv::$K::conv::<X>(v, variant, extras) }
            fn from_slice_u32(s: &[u32]) -> Vec<u32> {
                // a Copy element whose Default is not the all-zero bit pattern
                let src: Vec<C32> = s.iter().map(|x| C32(*x)).collect();
                let v = vek::vec::repr_c::$Vec::<C32>::from_slice(&src);
                vec![$(v.$f.0),+]
            }
            #[inline]
            fn v_field(v: &Self::V, i: usize) -> &X {
                match i { $($i => &v.$f,)+ _ => panic!("harness: field index") }
            }
        }
    };
}

kind!(KVec2, "Vec2", Vec2, ro_vec2, 2, [x y], [0 1], [a0 a1]);
kind!(KVec3, "Vec3", Vec3, ro_vec3, 3, [x y z], [0 1 2], [a0 a1 a2]);
kind!(KVec4, "Vec4", Vec4, ro_vec4, 4, [x y z w], [0 1 2 3], [a0 a1 a2 a3]);
kind!(KExtent2, "Extent2", Extent2, ro_extent2, 2, [w h], [0 1], [a0 a1]);
kind!(KExtent3, "Extent3", Extent3, ro_extent3, 3, [w h d], [0 1 2], [a0 a1 a2]);
kind!(KRgb, "Rgb", Rgb, ro_rgb, 3, [r g b], [0 1 2], [a0 a1 a2]);
kind!(KRgba, "Rgba", Rgba, ro_rgba, 4, [r g b a], [0 1 2 3], [a0 a1 a2 a3]);
kind!(KUv, "Uv", Uv, ro_uv, 2, [u v], [0 1], [a0 a1]);
kind!(KUvw, "Uvw", Uvw, ro_uvw, 3, [u v w], [0 1 2], [a0 a1 a2]);
kind!(KVec8, "Vec8", Vec8, ro_vec8, 8, [0 1 2 3 4 5 6 7], [0 1 2 3 4 5 6 7], [a0 a1 a2 a3 a4 a5 a6 a7]);
kind!(KVec16, "Vec16", Vec16, ro_vec16, 16,
    [0 1 2 3 4 5 6 7 8 9 10 11 12 13 14 15],
    [0 1 2 3 4 5 6 7 8 9 10 11 12 13 14 15],
    [a0 a1 a2 a3 a4 a5 a6 a7 a8 a9 a10 a11 a12 a13 a14 a15]);
kind!(KVec32, "Vec32", Vec32, ro_vec32, 32,
    [0 1 2 3 4 5 6 7 8 9 10 11 12 13 14 15 16 17 18 19 20 21 22 23 24 25 26 27 28 29 30 31],
    [0 1 2 3 4 5 6 7 8 9 10 11 12 13 14 15 16 17 18 19 20 21 22 23 24 25 26 27 28 29 30 31],
    [a0 a1 a2 a3 a4 a5 a6 a7 a8 a9 a10 a11 a12 a13 a14 a15 a16 a17 a18 a19 a20 a21 a22 a23 a24 a25 a26 a27 a28 a29 a30 a31]);
kind!(KVec64, "Vec64", Vec64, ro_vec64, 64,
    [0 1 2 3 4 5 6 7 8 9 10 11 12 13 14 15 16 17 18 19 20 21 22 23 24 25 26 27 28 29 30 31 32 33 34 35 36 37 38 39 40 41 42 43 44 45 46 47 48 49 50 51 52 53 54 55 56 57 58 59 60 61 62 63],
    [0 1 2 3 4 5 6 7 8 9 10 11 12 13 14 15 16 17 18 19 20 21 22 23 24 25 26 27 28 29 30 31 32 33 34 35 36 37 38 39 40 41 42 43 44 45 46 47 48 49 50 51 52 53 54 55 56 57 58 59 60 61 62 63],
    [a0 a1 a2 a3 a4 a5 a6 a7 a8 a9 a10 a11 a12 a13 a14 a15 a16 a17 a18 a19 a20 a21 a22 a23 a24 a25 a26 a27 a28 a29 a30 a31 a32 a33 a34 a35 a36 a37 a38 a39 a40 a41 a42 a43 a44 a45 a46 a47 a48 a49 a50 a51 a52 a53 a54 a55 a56 a57 a58 a59 a60 a61 a62 a63]);

/// Index of every vector kind (stable; part of replay files).
pub const VEC_KINDS: [(&str, usize); 13] = [
    ("Vec2", 2),
    ("Vec3", 3),
    ("Vec4", 4),
    ("Vec8", 8),
    ("Vec16", 16),
    ("Vec32", 32),
    ("Vec64", 64),
    ("Extent2", 2),
    ("Extent3", 3),
    ("Rgb", 3),
    ("Rgba", 4),
    ("Uv", 2),
    ("Uvw", 3),
];
