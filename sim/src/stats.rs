//! Reach measurement: counters, probes, cursor-state and transition coverage.
//! Everything here is counted by the engine while it runs; nothing is a constant.

use crate::ops::{OpK, N_KINDS};

pub const F_CANCEL: usize = 0;
pub const F_FORGET: usize = 1;
pub const F_OBSERVE_PANIC: usize = 2;
pub const F_DROP_PANIC: usize = 3;
pub const F_SOURCE: usize = 4;
pub const F_DEFAULT_PANIC: usize = 5;
pub const F_CLOSURE_PANIC: usize = 6;
pub const F_SINK: usize = 7;
pub const F_HASHER: usize = 8;
pub const F_SOURCE_EXTRA: usize = 9;
pub const F_ARITH_PANIC: usize = 10;
pub const N_FAULTS: usize = 11;
pub const FAULT_NAMES: [&str; N_FAULTS] = [
    "F1-cancel(drop mid-history)",
    "F2-forget(mem::forget)",
    "F3-observe-panic(fmt/eq/hash unwinds)",
    "F4-drop-panic(element destructor unwinds)",
    "F5-source-fault(EOF/surplus/panic/lying-hint in from_iter source)",
    "F6-default-panic(T::default unwinds)",
    "F7-closure-panic(callback of map*/fold/for_each/find/... or a loop body unwinds)",
    "F8-sink-failure(the formatter sink returns Err at its k-th write: `?` early returns in Debug/Display)",
    "F9-hasher-panic(the caller's Hasher unwinds at its k-th write)",
    "F10-source-hint/drop-panic(the from_iter source's size_hint() or its own destructor unwinds)",
    "F11-operator-panic(the element type's own Add/Mul/AddAssign/Neg/MulAdd impl unwinds at its k-th call; zero()/one() or the source of vectors unwinds inside Sum/Product)",
];

macro_rules! probes {
    ($($name:ident = $i:expr, $txt:expr;)+) => {
        $(pub const $name: usize = $i;)+
        pub const PROBE_NAMES: &[&str] = &[$($txt,)+];
    };
}
probes! {
    P_CANCEL_ALL_LIVE = 0, "cancel with every element still live";
    P_CANCEL_ONE_LIVE = 1, "cancel with exactly one element live";
    P_CANCEL_NONE_LIVE = 2, "cancel of an exhausted iterator";
    P_OBS_EXHAUSTED = 3, "observe on an exhausted iterator";
    P_OBS_BOTH_ENDS = 4, "observe after pulls from both ends";
    P_OBS_AFTER_BAGDROP = 5, "observe after the caller destroyed a yielded element";
    P_NEXT_AFTER_EXHAUSTION = 6, "next/next_back on an exhausted iterator";
    P_FROMITER_SHORT = 7, "from_iter with early EOF";
    P_FROMITER_EXACT = 8, "from_iter with exactly N elements";
    P_FROMITER_SURPLUS = 9, "from_iter with surplus elements";
    P_SOURCE_PANIC_FIRED = 10, "from_iter source panic fired";
    P_NESTED_CANCEL = 11, "outer iterator cancelled while an inner one is alive";
    P_MAT_CROSS = 12, "matrix entered by rows and left by columns (or the reverse)";
    P_SLICE_REPLACE = 13, "element replaced through a mutable slice view";
    P_CLONE_PROBE_ACTIVE = 14, "clone probe found IntoIter<Tok>: Clone";
    P_FORGET = 15, "container or iterator forgotten";
    P_DROP_PANIC_FIRED = 16, "drop-panic fired";
    P_OBS_PANIC_FIRED = 17, "observe-panic fired";
    P_DEFAULT_PANIC_FIRED = 18, "default-panic fired";
    P_COLLECT_WITH_DEFAULTS = 19, "collect from a partially consumed iterator (defaults fill the tail)";
    P_EQ_TWIN_DIFFERENT_STATE = 20, "== against a twin in a different cursor state";
    P_EQ_TWIN_SAME_STATE = 21, "== against a twin in the same cursor state";
    P_OBS_HISTORY_CONTINUES = 22, "history continued on the iterator after an observe-panic";
    P_LYING_HINT = 23, "from_iter source with a lying size_hint";
    P_CHAIN_GE2 = 24, "conversion chain of length >= 2 before the iterator";
    P_NESTED_INNER_OBSERVE = 25, "observe on an inner (row/column) iterator";
    P_MAT_SWITCH_LAYOUT = 26, "matrix converted to the other storage layout";
    P_TAKECOUNT_PARTIAL = 27, "take(k).count() interrupted by a drop-panic, iterator still used afterwards";
    P_CLOSURE_PANIC_FIRED = 28, "map / map2 / zip / map_rows / map_cols closure panic fired";
    P_FROM_SLICE = 29, "from_slice (Copy elements) checked";
    P_ORD_PROBE_ACTIVE = 30, "ordering probe found IntoIter<Tok>: PartialOrd";
    P_SLICE_PROBE_ACTIVE = 31, "slice probe found IntoIter<Tok>: AsRef<[Tok]>";
    P_MAT_OBSERVE = 32, "Debug/Hash/==/Display on a matrix";
    P_MAT_MAP_LINES = 33, "map_rows / map_cols on a matrix";
    P_ADAPT_PANIC_CONTINUES = 34, "history continued on the iterator after a callback of a std adaptor panicked";
    P_NTH_DROP_PANIC = 35, "nth/nth_back interrupted by a panicking destructor of a skipped element, iterator still used afterwards";
    P_FOLD_CLOSURE_PANIC = 36, "fold/rfold/consuming adaptor closure panicked (iterator dropped during unwinding)";
    P_LOOP_BODY_PANIC = 37, "for-loop body panicked (iterator survives, history continues)";
    P_CONTAINER_CLONE = 38, "vector / matrix cloned (Clone on the container), clone dropped";
    P_CLONE_PANIC_FIRED = 39, "panic inside an element's clone() while cloning a container";
    P_SWAP_TWIN = 40, "iterator swapped with the twin iterator (both change address)";
    P_DEFAULT_PROBE_ACTIVE = 41, "Default probe found IntoIter<Tok>: Default";
    P_FROMITER_GAP = 42, "from_iter over a source that is not fused (None once, more elements behind it)";
    P_VREDUCE = 43, "reduce(f) on a vector of non-Copy elements";
    P_KIND_CONV = 44, "kind / size conversion chain between vector types (From<other kind>, From<(smaller, scalar)>, truncating From<larger>)";
    P_KIND_CONV_TRUNC = 45, "kind / size conversion that cuts elements off (they must be destroyed exactly once)";
    P_MAT_SHRINK = 46, "truncating matrix conversion (Mat4 -> Mat3 / Mat2, Mat3 -> Mat2)";
    P_SOURCE_EXTRA_FIRED = 47, "from_iter source's size_hint() / destructor panic fired";
    P_CLONE_FROM = 48, "clone_from on a vector (old elements of the destination destroyed, fresh clones in place)";
    P_ARITH = 49, "element-wise operator / mul_add / sum / product on a vector of non-Copy elements";
    P_ARITH_PANIC_FIRED = 50, "panic inside the element type's operator impl fired";
    P_ARITH_SUM_SOURCE = 51, "Sum / Product over a source of vectors of non-Copy elements";
    P_ARITH_ASSIGN_PANIC_CONTINUES = 52, "v += w interrupted by a panicking element operator, vector still used afterwards";
    P_ARITH_ORD = 53, "reduce_min/max/partial_min/partial_max or V::min/max/partial_min/partial_max on non-Copy elements (losers destroyed)";
}
pub const N_PROBES: usize = 54;

pub const N_OPK: usize = 80;

/// Coverage of one iterator type: which cursor states (s, e) were observed / cancelled,
/// and which (state, operation kind) transitions were taken.
#[derive(Clone)]
pub struct Cov {
    pub n: usize,
    pub observed: Vec<u64>,
    pub cancelled: Vec<u64>,
    pub visited: Vec<u64>,
    pub trans: Vec<u64>,
}
impl Cov {
    pub fn new(n: usize) -> Cov {
        let cells = (n + 1) * (n + 1);
        Cov {
            n,
            observed: vec![0; (cells + 63) / 64],
            cancelled: vec![0; (cells + 63) / 64],
            visited: vec![0; (cells + 63) / 64],
            trans: vec![0; (cells * N_OPK + 63) / 64],
        }
    }
    #[inline]
    fn cell(&self, s: usize, e: usize) -> usize {
        s * (self.n + 1) + e
    }
    #[inline]
    pub fn mark(&mut self, which: u8, s: usize, e: usize) {
        let c = self.cell(s.min(self.n), e.min(self.n));
        let v = match which {
            0 => &mut self.observed,
            1 => &mut self.cancelled,
            _ => &mut self.visited,
        };
        v[c / 64] |= 1 << (c % 64);
    }
    #[inline]
    pub fn mark_trans(&mut self, s: usize, e: usize, k: OpK) {
        let c = self.cell(s.min(self.n), e.min(self.n)) * N_OPK + (k as usize).min(N_OPK - 1);
        self.trans[c / 64] |= 1 << (c % 64);
    }
    pub fn merge(&mut self, o: &Cov) {
        for (a, b) in self.observed.iter_mut().zip(&o.observed) {
            *a |= *b;
        }
        for (a, b) in self.cancelled.iter_mut().zip(&o.cancelled) {
            *a |= *b;
        }
        for (a, b) in self.visited.iter_mut().zip(&o.visited) {
            *a |= *b;
        }
        for (a, b) in self.trans.iter_mut().zip(&o.trans) {
            *a |= *b;
        }
    }
    pub fn reachable(&self) -> usize {
        (self.n + 1) * (self.n + 2) / 2
    }
    fn count(v: &[u64]) -> usize {
        v.iter().map(|w| w.count_ones() as usize).sum()
    }
    pub fn n_observed(&self) -> usize {
        Self::count(&self.observed)
    }
    pub fn n_cancelled(&self) -> usize {
        Self::count(&self.cancelled)
    }
    pub fn n_visited(&self) -> usize {
        Self::count(&self.visited)
    }
    pub fn n_trans(&self) -> usize {
        Self::count(&self.trans)
    }
    /// The property's own alphabet {next, next_back, len/size_hint, observe, drop}: how many
    /// (reachable cursor state, operation) pairs were executed, and how many exist.
    pub fn core_transitions(&self) -> (usize, usize) {
        let g = self.core_transitions_by_op();
        (g.iter().map(|x| x.0).sum(), g.iter().map(|x| x.1).sum())
    }
    /// Per operation of the core alphabet [next, next_back, len|size_hint, observe, drop]: (executed, total).
    pub fn core_transitions_by_op(&self) -> [(usize, usize); 5] {
        let groups: [&[OpK]; 5] = [&[OpK::Next], &[OpK::NextBack], &[OpK::Len, OpK::SizeHint], &[OpK::Observe], &[OpK::Drop]];
        let mut out = [(0usize, 0usize); 5];
        for s in 0..=self.n {
            for e in s..=self.n {
                let c = self.cell(s, e) * N_OPK;
                for (gi, g) in groups.iter().enumerate() {
                    out[gi].1 += 1;
                    if g.iter().any(|k| {
                        let b = c + *k as usize;
                        self.trans[b / 64] >> (b % 64) & 1 == 1
                    }) {
                        out[gi].0 += 1;
                    }
                }
            }
        }
        out
    }
    #[allow(dead_code)]
    fn core_transitions_old(&self) -> (usize, usize) {
        let groups: [&[OpK]; 5] = [&[OpK::Next], &[OpK::NextBack], &[OpK::Len, OpK::SizeHint], &[OpK::Observe], &[OpK::Drop]];
        let (mut hit, mut total) = (0, 0);
        for s in 0..=self.n {
            for e in s..=self.n {
                let c = self.cell(s, e) * N_OPK;
                for g in groups.iter() {
                    total += 1;
                    if g.iter().any(|k| {
                        let b = c + *k as usize;
                        self.trans[b / 64] >> (b % 64) & 1 == 1
                    }) {
                        hit += 1;
                    }
                }
            }
        }
        (hit, total)
    }
}

/// Coverage slots: one per kind (for matrices: the outer iterator over its n lines).
pub fn cov_dim(slot: usize) -> usize {
    crate::ops::kind_dim(slot)
}

#[derive(Clone)]
pub struct Stats {
    pub runs: u64,
    pub runs_faulty: u64,
    pub runs_nontrivial: u64,
    pub runs_wide: u64,
    pub runs_plain: u64,
    pub runs_zst: u64,
    pub runs_uniform: u64,
    pub ops_exec: u64,
    pub ops_skipped: u64,
    pub op_counts: [u64; N_OPK],
    pub kind_runs: [u64; N_KINDS],
    pub fault_cfg: [u64; N_FAULTS],
    pub fault_fired: [u64; N_FAULTS],
    pub probes: [u64; N_PROBES],
    pub cov: Vec<Cov>,
    pub callbacks_drop: u64,
    pub callbacks_touch: u64,
    pub callbacks_default: u64,
    pub elements_created: u64,
    pub adapt_counts: [u64; 23],
    pub consume_counts: [u64; 6],
}

impl Stats {
    pub fn new() -> Stats {
        Stats {
            runs: 0,
            runs_faulty: 0,
            runs_nontrivial: 0,
            runs_wide: 0,
            runs_plain: 0,
            runs_zst: 0,
            runs_uniform: 0,
            ops_exec: 0,
            ops_skipped: 0,
            op_counts: [0; N_OPK],
            kind_runs: [0; N_KINDS],
            fault_cfg: [0; N_FAULTS],
            fault_fired: [0; N_FAULTS],
            probes: [0; N_PROBES],
            cov: (0..N_KINDS).map(|k| Cov::new(cov_dim(k))).collect(),
            callbacks_drop: 0,
            callbacks_touch: 0,
            callbacks_default: 0,
            elements_created: 0,
            adapt_counts: [0; 23],
            consume_counts: [0; 6],
        }
    }
    pub fn merge(&mut self, o: &Stats) {
        self.runs += o.runs;
        self.runs_faulty += o.runs_faulty;
        self.runs_nontrivial += o.runs_nontrivial;
        self.runs_wide += o.runs_wide;
        self.runs_plain += o.runs_plain;
        self.runs_zst += o.runs_zst;
        self.runs_uniform += o.runs_uniform;
        self.ops_exec += o.ops_exec;
        self.ops_skipped += o.ops_skipped;
        for i in 0..N_OPK {
            self.op_counts[i] += o.op_counts[i];
        }
        for i in 0..N_KINDS {
            self.kind_runs[i] += o.kind_runs[i];
        }
        for i in 0..N_FAULTS {
            self.fault_cfg[i] += o.fault_cfg[i];
            self.fault_fired[i] += o.fault_fired[i];
        }
        for i in 0..N_PROBES {
            self.probes[i] += o.probes[i];
        }
        for (a, b) in self.cov.iter_mut().zip(&o.cov) {
            a.merge(b);
        }
        self.callbacks_drop += o.callbacks_drop;
        self.callbacks_touch += o.callbacks_touch;
        self.callbacks_default += o.callbacks_default;
        self.elements_created += o.elements_created;
        for i in 0..23 {
            self.adapt_counts[i] += o.adapt_counts[i];
        }
        for i in 0..6 {
            self.consume_counts[i] += o.consume_counts[i];
        }
    }
}
