//! vek-sim: deterministic simulation of vek's element containers (property C18).
//!
//! Sub-commands:
//!   check   --tier quick|thorough [--seed S] [--runs N] [--workers W] [--evidence F] [--replays D] [--known F]
//!   replay  FILE            re-execute a replay file; exit 1 (+ VIOLATION line) iff it reproduces
//!   digest  --seed S --start A --count N --workers W      print the chunk digests (determinism self-test child)
//!   gen     --seed S --run R                              print the generated plan
//!   exec-plan FILE          execute a plan file, print the verdict (crash-isolation child)

mod adapters;
mod arith;
mod engine;
mod exec;
mod gen;
mod json;
mod kindconv;
mod mat;
mod ops;
mod probe;
mod rng;
mod run;
mod stats;
mod supervise;
mod tok;
mod zexec;
mod zmat;

use std::collections::HashMap;
use std::process::Command;
use std::time::Instant;

use engine::*;
use json::J;
use ops::*;
use stats::*;

const EXIT_OK: i32 = 0;
const EXIT_VIOLATION: i32 = 1;
const EXIT_HARNESS: i32 = 2;

fn args_map(args: &[String]) -> (HashMap<String, String>, Vec<String>) {
    let mut m = HashMap::new();
    let mut pos = Vec::new();
    let mut i = 0;
    while i < args.len() {
        if let Some(k) = args[i].strip_prefix("--") {
            if i + 1 < args.len() && !args[i + 1].starts_with("--") {
                m.insert(k.to_string(), args[i + 1].clone());
                i += 2;
            } else {
                m.insert(k.to_string(), "1".to_string());
                i += 1;
            }
        } else {
            pos.push(args[i].clone());
            i += 1;
        }
    }
    (m, pos)
}

fn get_u64(m: &HashMap<String, String>, k: &str, d: u64) -> u64 {
    m.get(k).and_then(|s| s.parse().ok()).unwrap_or(d)
}

fn load_known(path: &str) -> Result<Vec<Known>, String> {
    let txt = match std::fs::read_to_string(path) {
        Ok(t) => t,
        Err(_) => return Ok(Vec::new()),
    };
    let j = json::parse(&txt)?;
    let mut out = Vec::new();
    for e in j.get("findings").and_then(|x| x.as_arr()).cloned().unwrap_or_default() {
        if e.get("property").and_then(|x| x.as_str()) != Some("C18") {
            continue;
        }
        out.push(Known {
            status: e.get("status").and_then(|x| x.as_str()).unwrap_or("").to_string(),
            class: e.get("class_code").and_then(|x| x.as_i64()).unwrap_or(0) as u8,
            op: e.get("op").and_then(|x| x.as_str()).unwrap_or("").to_string(),
            what: e.get("what").and_then(|x| x.as_str()).unwrap_or("").to_string(),
        });
    }
    Ok(out)
}

fn self_exe() -> std::path::PathBuf {
    std::env::current_exe().expect("current_exe")
}

/// Determinism self-test: the same run indices, in fresh processes, at several worker counts,
/// twice each, must give identical per-chunk digest vectors.
fn determinism_selftest(seed: u64, count: u64, nseeds: u64) -> Result<(u64, usize, String), String> {
    let mut procs = 0usize;
    let mut first_fold = String::new();
    let configs: [(usize, usize); 3] = [(1, 2), (5, 2), (16, 2)];
    for sd in seed..seed + nseeds.max(1) {
        let mut reference: Option<String> = None;
        let mut children = Vec::new();
        for (w, reps) in configs {
            for _ in 0..reps {
                let c = Command::new(self_exe())
                    .args(["digest", "--seed", &sd.to_string(), "--start", "0", "--count", &count.to_string(), "--workers", &w.to_string()])
                    .output();
                children.push((w, c));
            }
        }
        for (w, c) in children {
            let out = c.map_err(|e| format!("spawn: {}", e))?;
            if !out.status.success() {
                return Err(format!("digest child (seed={}, workers={}) failed: {:?} {}", sd, w, out.status, String::from_utf8_lossy(&out.stderr)));
            }
            let s = String::from_utf8_lossy(&out.stdout).to_string();
            procs += 1;
            match &reference {
                None => reference = Some(s),
                Some(r) => {
                    if *r != s {
                        return Err(format!("event-log digests differ between processes (seed={}, workers={})", sd, w));
                    }
                }
            }
        }
        if sd == seed {
            first_fold = reference.unwrap_or_default().lines().last().unwrap_or("").to_string();
        }
    }
    Ok((count, procs, first_fold))
}

fn cov_json(st: &Stats) -> (J, usize, usize, usize, usize, usize, usize) {
    let mut rows = Vec::new();
    let (mut tot_reach, mut tot_obs, mut tot_can, mut tot_tr) = (0, 0, 0, 0);
    let (mut core_hit, mut core_total) = (0, 0);
    for k in 0..N_KINDS {
        let c = &st.cov[k];
        tot_reach += c.reachable();
        tot_obs += c.n_observed();
        tot_can += c.n_cancelled();
        tot_tr += c.n_trans();
        let (ch, ct) = c.core_transitions();
        let by = c.core_transitions_by_op();
        let by_s = format!("next {}/{}, next_back {}/{}, len|size_hint {}/{}, observe {}/{}, drop {}/{}", by[0].0, by[0].1, by[1].0, by[1].1, by[2].0, by[2].1, by[3].0, by[3].1, by[4].0, by[4].1);
        core_hit += ch;
        core_total += ct;
        rows.push(J::obj(vec![
            ("core_transitions_by_op", J::s(by_s)),
            ("core_transitions_executed", J::i(ch as i64)),
            ("core_transitions_total", J::i(ct as i64)),
            ("container", J::s(kind_name(k))),
            ("iterator_len", J::i(c.n as i64)),
            ("runs", J::i(st.kind_runs[k] as i64)),
            ("cursor_states_reachable", J::i(c.reachable() as i64)),
            ("cursor_states_visited", J::i(c.n_visited() as i64)),
            ("cursor_states_observed", J::i(c.n_observed() as i64)),
            ("cursor_states_cancelled", J::i(c.n_cancelled() as i64)),
            ("distinct_state_op_transitions", J::i(c.n_trans() as i64)),
        ]));
    }
    (J::Arr(rows), tot_reach, tot_obs, tot_can, tot_tr, core_hit, core_total)
}

/// The `check` command proper runs in a child process (`--inner`); this wrapper supervises it
/// so that a crash or a hang of the code under test becomes a reported, replayable violation.
fn cmd_check(m: &HashMap<String, String>, raw: &[String]) -> i32 {
    if m.contains_key("inner") || m.contains_key("no-supervisor") {
        return cmd_check_inner(m);
    }
    let tier = m.get("tier").cloned().or_else(|| std::env::var("VERIF_TIER").ok()).unwrap_or_else(|| "quick".into());
    let tier = if tier == "thorough" { "thorough" } else { "quick" }.to_string();
    let seed = m.get("seed").and_then(|s| s.parse().ok()).or_else(|| std::env::var("VERIF_SEED").ok().and_then(|s| s.parse().ok())).unwrap_or(1u64);
    let runs = get_u64(m, "runs", if tier == "thorough" { 600_000_000 } else { 2_000_000 });
    let cfg = supervise::SuperviseCfg {
        seed,
        runs,
        tier,
        evidence: m.get("evidence").cloned().unwrap_or_else(|| "/verif/evidence/C18.json".into()),
        replays: m.get("replays").cloned().unwrap_or_else(|| "/verif/replays".into()),
        hang_s: get_u64(m, "hang-s", 300),
    };
    let mut args = vec!["check".to_string()];
    args.extend(raw.iter().cloned());
    supervise::supervise(args, &cfg)
}

fn cmd_check_inner(m: &HashMap<String, String>) -> i32 {
    let tier = m.get("tier").cloned().or_else(|| std::env::var("VERIF_TIER").ok()).unwrap_or_else(|| "quick".into());
    let tier = if tier == "thorough" { "thorough" } else { "quick" };
    let seed = m.get("seed").and_then(|s| s.parse().ok()).or_else(|| std::env::var("VERIF_SEED").ok().and_then(|s| s.parse().ok())).unwrap_or(1u64);
    let default_runs = if tier == "thorough" { 600_000_000 } else { 2_000_000 };
    let runs = get_u64(m, "runs", default_runs);
    let workers = get_u64(m, "workers", std::thread::available_parallelism().map(|n| n.get() as u64).unwrap_or(16)) as usize;
    let evidence = m.get("evidence").cloned().unwrap_or_else(|| "/verif/evidence/C18.json".into());
    let replays = m.get("replays").cloned().unwrap_or_else(|| "/verif/replays".into());
    let known_path = m.get("known").cloned().unwrap_or_else(|| "/verif/known_findings.json".into());
    let det_runs = get_u64(m, "det-runs", if tier == "thorough" { 20_480 } else { 2_048 });
    let det_seeds = get_u64(m, "det-seeds", if tier == "thorough" { 4 } else { 1 });
    println!("C18 check: tier={} VERIF_SEED={} runs={} workers={} build={}", tier, seed, runs, workers, BUILD_PROFILE);
    let t0 = Instant::now();

    let known = match load_known(&known_path) {
        Ok(k) => k,
        Err(e) => {
            eprintln!("harness error: cannot parse {}: {}", known_path, e);
            return EXIT_HARNESS;
        }
    };

    // 1. the search (first, so that a crash or a hang caused by a broken vek happens where the
    //    supervising process can attribute it to a run)
    let inflight = m.get("inflight").map(std::path::PathBuf::from);
    let set_phase = |p: &str| {
        if let Some(d) = &inflight {
            let _ = std::fs::write(d.join("phase"), p);
        }
    };
    set_phase("search");
    let res = run_batch(seed, 0, runs, workers, &known, true, inflight.as_deref());
    set_phase("post");
    let wall_search = t0.elapsed().as_secs_f64();
    if let Some((run, e)) = &res.harness_error {
        eprintln!("harness error: run {} of seed {} panicked outside any operation bracket: {}", run, seed, e);
        return EXIT_HARNESS;
    }

    // 2. determinism self-test (only meaningful, and only safe to wait for, when the search was clean)
    let det = if m.contains_key("no-det") || res.first.is_some() {
        None
    } else {
        match determinism_selftest(seed, det_runs, det_seeds) {
            Ok(d) => {
                println!("determinism self-test: {} runs x {} fresh processes ({} seed(s) x workers 1,5,16, twice each): identical digests ({})", d.0, d.1, det_seeds, d.2);
                Some(d)
            }
            Err(e) => {
                eprintln!("harness error: determinism self-test failed: {}", e);
                return EXIT_HARNESS;
            }
        }
    };


    // 3. replay self-test of one synthetic history (writer -> file -> parser -> executor round trip)
    let synth = Plan {
        kind: 2,
        faulty: false,
        elem: 0,
        uniform: false,
        ops: vec![Op::new(OpK::ArrToV), Op::new(OpK::VIntoIter), Op::ab(OpK::Next, 0, 1), Op::new(OpK::NextBack), Op::a(OpK::Observe, 0), Op::new(OpK::Len), Op::new(OpK::Drop)],
    };
    let rt = plan_from_json(&json::parse(&plan_to_json(&synth).pretty()).unwrap_or(J::Null));
    let mut scratch = Stats::new();
    let replay_selftest_ok = match rt {
        Ok(p) => {
            p == synth && {
                let a = run::execute(&synth, &mut scratch, false);
                let b = run::execute(&p, &mut scratch, false);
                a.digest == b.digest && a.executed == b.executed
            }
        }
        Err(_) => false,
    };
    if !replay_selftest_ok {
        eprintln!("harness error: replay round-trip self-test failed");
        return EXIT_HARNESS;
    }

    // 4. known findings seen
    let mut known_lines = Vec::new();
    for (ki, k) in known.iter().enumerate() {
        let hits: Vec<u64> = res.known_hits.iter().filter(|h| h.0 == ki).map(|h| h.1).collect();
        if k.status == "known" && !hits.is_empty() {
            let line = format!("KNOWN-FINDING: property=C18 {} [{} at {}] ({} runs, first run {})", k.what, tok::class_name(k.class), k.op, hits.len(), hits[0]);
            println!("{}", line);
            known_lines.push(line);
        }
    }

    // 5. violation handling
    let mut exit = EXIT_OK;
    let mut viol_json = J::Null;
    if let Some(found) = &res.first {
        let _ = std::fs::create_dir_all(&replays);
        let raw_path = format!("{}/C18-{}-{}.raw.json", replays, seed, found.run);
        let min_path = format!("{}/C18-{}-{}.json", replays, seed, found.run);
        if let Err(e) = write_replay(&raw_path, seed, found.run, &found.plan, &found.outcome, false, found.plan.ops.len(), 0) {
            eprintln!("harness error: cannot write {}: {}", raw_path, e);
            return EXIT_HARNESS;
        }
        let (mp, mo, tried) = minimise(&found.plan, &found.outcome, 2000);
        if let Err(e) = write_replay(&min_path, seed, found.run, &mp, &mo, true, found.plan.ops.len(), tried) {
            eprintln!("harness error: cannot write {}: {}", min_path, e);
            return EXIT_HARNESS;
        }
        // replay in a fresh process: must fail the same way
        let out = Command::new(self_exe()).args(["replay", &min_path, "--quiet"]).output();
        match out {
            Ok(o) if o.status.code() == Some(EXIT_VIOLATION) => {}
            Ok(o) => {
                eprintln!("harness error: minimised replay {} did not reproduce in a fresh process (exit {:?})\n{}", min_path, o.status.code(), String::from_utf8_lossy(&o.stdout));
                return EXIT_HARNESS;
            }
            Err(e) => {
                eprintln!("harness error: cannot spawn replay: {}", e);
                return EXIT_HARNESS;
            }
        }
        let v = mo.violation.as_ref().unwrap();
        println!("violation in run {} of seed {}: {} at step {} ({}): {}", found.run, seed, tok::class_name(v.class), if v.step == u32::MAX { "end-of-run".to_string() } else { v.step.to_string() }, mo.viol_op.map(|o| o.name()).unwrap_or("quiescence"), v.detail);
        println!("minimised {} -> {} operations ({} candidates); container {}", found.plan.ops.len(), mp.ops.len(), tried, kind_name(mp.kind));
        println!("VIOLATION property=C18 replay={}", min_path);
        viol_json = J::obj(vec![("run", J::i(found.run as i64)), ("replay", J::s(min_path.clone())), ("violation", violation_to_json(v, mo.viol_op)), ("minimised_plan", plan_to_json(&mp))]);
        exit = EXIT_VIOLATION;
    }

    // 5b. the Miri pass (thorough tier; run by ./check before this process, handed over as a file)
    let miri_summary: J = match m.get("miri-summary") {
        Some(p) => match std::fs::read_to_string(p).map_err(|e| e.to_string()).and_then(|t| json::parse(&t)) {
            Ok(j) => j,
            Err(e) => {
                eprintln!("harness error: cannot read the Miri summary {}: {}", p, e);
                return EXIT_HARNESS;
            }
        },
        None => J::s("not run in this tier"),
    };
    if let Some(v) = miri_summary.get("violation") {
        if let Some(rp) = v.get("replay").and_then(|x| x.as_str()) {
            println!("Miri pass: {}", v.get("diagnostic").and_then(|x| x.as_str()).unwrap_or("error"));
            if exit == EXIT_OK {
                println!("VIOLATION property=C18 replay={}", rp);
                exit = EXIT_VIOLATION;
            }
        }
    }

    // 5c. the second build configuration (run by ./check before this process with the dbgcfg binary,
    //     handed over as its evidence file; a violation found there never reaches this point)
    let second_cfg: J = match m.get("config-summary") {
        Some(p) => match std::fs::read_to_string(p).map_err(|e| e.to_string()).and_then(|t| json::parse(&t)) {
            Ok(j) => {
                let c = j.get("coverage").cloned().unwrap_or(J::Null);
                let pick = |k: &str| c.get(k).cloned().unwrap_or(J::Null);
                J::obj(vec![
                    ("build_profile", pick("build_profile")),
                    ("what", J::s("the same seeded plan stream (same VERIF_SEED, run indices from 0) executed by a second binary in which vek and the simulator are compiled with debug assertions and overflow checks on (cargo profile dbgcfg, opt-level 1): code under cfg(debug_assertions) / debug_assert!, arithmetic that would wrap in release, and core's unsafe-precondition checks (ptr::read alignment, get_unchecked bounds, unwrap_unchecked, from_raw_parts) are live; a failed check aborts and is reported by the supervisor as V11")),
                    ("evaluations", pick("evaluations")),
                    ("distinct_nontrivial", pick("distinct_nontrivial")),
                    ("simulated_steps_executed", pick("simulated_steps_executed")),
                    ("fault_kinds", pick("fault_kinds")),
                    ("cursor_states_total", pick("cursor_states_total")),
                    ("batch_digest", pick("batch_digest")),
                    ("wall_s", j.get("wall_s").cloned().unwrap_or(J::Null)),
                    ("violations", j.get("violations").cloned().unwrap_or(J::Null)),
                ])
            }
            Err(e) => {
                eprintln!("harness error: cannot read the second configuration's summary {}: {}", p, e);
                return EXIT_HARNESS;
            }
        },
        None => J::s("not run"),
    };

    // 6. evidence
    let wall = t0.elapsed().as_secs_f64();
    let st = &res.stats;
    let (cov, reach, obs, can, tr, core_hit, core_total) = cov_json(st);
    let samples: Vec<J> = (0..3u64)
        .map(|r| {
            let p = gen::gen_plan(seed, r);
            J::obj(vec![("run", J::i(r as i64)), ("plan", plan_to_json(&p))])
        })
        .collect();
    let faults: Vec<J> = (0..N_FAULTS)
        .map(|i| J::obj(vec![("kind", J::s(FAULT_NAMES[i])), ("configured", J::i(st.fault_cfg[i] as i64)), ("fired", J::i(st.fault_fired[i] as i64))]))
        .collect();
    let probes: Vec<J> = (0..N_PROBES).map(|i| J::obj(vec![("probe", J::s(PROBE_NAMES[i])), ("hits", J::i(st.probes[i] as i64))])).collect();
    let opc: Vec<J> = OpK::ALL
        .iter()
        .filter(|k| st.op_counts[**k as usize] > 0)
        .map(|k| J::obj(vec![("op", J::s(k.name())), ("executed", J::i(st.op_counts[*k as usize] as i64))]))
        .collect();
    let coverage = J::obj(vec![
        ("evaluations", J::i(st.runs as i64)),
        ("distinct_nontrivial", J::i(res.distinct_nontrivial as i64)),
        ("rule", J::s("Each evaluation is one simulated run: a plan (container type, clean/faulty class, operation list with fault annotations) drawn from splitmix64(VERIF_SEED, run index) and executed against the real vek code, the reference model and the ownership ledger. A run is non-trivial when at least one element was pulled from a consuming iterator and an observe / cancel / forget / collect / injected-panic operation executed afterwards, or when its conversion chain has >= 2 real conversions. Distinct = distinct 64-bit hashes of (container, operation list) among non-trivial runs, counted in a bitmap (collisions can only under-count).")),
        ("samples", J::Arr(samples)),
        ("runs_nontrivial", J::i(st.runs_nontrivial as i64)),
        ("runs_clean_class", J::i((st.runs - st.runs_faulty) as i64)),
        ("runs_faulty_class", J::i(st.runs_faulty as i64)),
        ("runs_with_wide_element", J::i(st.runs_wide as i64)),
        ("runs_with_nodrop_element", J::i(st.runs_plain as i64)),
        ("runs_with_zero_sized_element", J::i(st.runs_zst as i64)),
        ("runs_with_uniform_payload_values", J::i(st.runs_uniform as i64)),
        ("element_shapes", J::s("vector runs draw the element shape per run: Tok (8 bytes, align 4, drop glue) 9/16; Wide256 (256 bytes, align 16, checked padding byte in front of the payload and sentinel byte at the end, drop glue) 4/16; PlainNoDrop (no drop glue, so mem::needs_drop::<T>() is false: order, length, aliasing and read-after-yield are checked, drop accounting is unobservable) 2/16; ZstDrop (zero-sized with drop glue: counting oracle created - destroyed - forgotten == owned, len/size_hint, yields) 1/16. Matrix runs: Tok 10/16, Wide256 3/16, PlainNoDrop 2/16 (rows and columns are VecN<leaf>), ZstDrop 1/16 (matrix part only, counting oracle).")),
        ("simulated_steps_executed", J::i(st.ops_exec as i64)),
        ("simulated_steps_skipped_precondition", J::i(st.ops_skipped as i64)),
        ("simulated_time_note", J::s("vek has no clock; simulated time is the number of simulator steps (operations executed)")),
        ("runs_per_hour", J::Num((st.runs as f64 / wall_search.max(1e-9) * 3600.0).round())),
        ("seeds_per_hour", J::Num((st.runs as f64 / wall_search.max(1e-9) * 3600.0).round())),
        ("run_index_range", J::Arr(vec![J::i(0), J::i(runs as i64)])),
        ("elements_created", J::i(st.elements_created as i64)),
        ("callbacks", J::obj(vec![("drop", J::i(st.callbacks_drop as i64)), ("fmt_eq_hash_clone", J::i(st.callbacks_touch as i64)), ("default", J::i(st.callbacks_default as i64))])),
        ("fault_kinds", J::Arr(faults)),
        ("probes", J::Arr(probes)),
        ("operations", J::Arr(opc)),
        ("std_adaptors_on_by_ref", J::Arr((0..N_ADAPT as usize).map(|i| J::obj(vec![("method", J::s(ADAPT_NAMES[i])), ("executed", J::i(st.adapt_counts[i] as i64))])).collect())),
        ("std_consumers_by_value", J::Arr((0..N_CONSUME as usize).map(|i| J::obj(vec![("method", J::s(CONSUME_NAMES[i])), ("executed", J::i(st.consume_counts[i] as i64))])).collect())),
        ("cursor_state_coverage", cov),
        ("cursor_states_total", J::obj(vec![("reachable", J::i(reach as i64)), ("observed", J::i(obs as i64)), ("cancelled", J::i(can as i64)), ("distinct_state_op_transitions", J::i(tr as i64)), ("core_alphabet_transitions_executed", J::i(core_hit as i64)), ("core_alphabet_transitions_total", J::i(core_total as i64)), ("core_alphabet", J::s("(reachable cursor state) x {next, next_back, len|size_hint, observe, drop}: the property's own quantifier"))])),
        ("states", J::i(obs as i64)),
        ("transitions", J::i(tr as i64)),
        (
            "determinism_selftest",
            match &det {
                Some(d) => J::obj(vec![("runs", J::i(d.0 as i64)), ("fresh_processes", J::i(d.1 as i64)), ("seeds", J::i(det_seeds as i64)), ("worker_counts", J::Arr(vec![J::i(1), J::i(5), J::i(16)])), ("identical", J::Bool(true)), ("digest", J::s(d.2.clone()))]),
                None => J::s("skipped (--no-det, or a violation was found: the replay in a fresh process is the reproducibility check then)"),
            },
        ),
        ("batch_digest", J::s(format!("{:016x}", res.digest))),
        ("replay_roundtrip_selftest", J::Bool(true)),
        (
            "components",
            J::obj(vec![
                ("real", J::Arr(vec![
                    J::s("vek (path dependency on /repo, rebuilt from the working tree): all 13 vector types incl. their 13 IntoIter types (Iterator, DoubleEndedIterator, ExactSizeIterator, Debug, Hash, PartialEq, Drop, and whatever of Clone/PartialOrd/AsRef/AsMut/Borrow/Deref/Default they implement), From<[T;N]>, From<tuple>, new, into_array, into_tuple, FromIterator, from_slice, Default, Clone (clone and clone_from), Debug/Display/Hash/PartialEq, map/map2/map3/zip/reduce, the kind and size conversions between the vector types that have no bound on T (From<other kind>, truncating From<larger>, From<(smaller, scalar)>, Vec4 <-> Quaternion), swizzles (yx, zyx, zyxw, xy, xyz, rgb), with_x..w, shuffled_argb/bgra/bgr, Vec4::interleave_*/shuffle_lo_hi_0101/shuffle_hi_lo_2323, as_slice/as_mut_slice/AsRef/AsMut/Borrow/BorrowMut/Deref/DerefMut/&V and &mut V iteration; with element types that implement the arithmetic traits without being Copy: Add/Mul by value (right operand a vector, an array or a tuple through Into), Add with a borrowed right operand, with a borrowed left operand and with both borrowed, AddAssign, Neg, mul_add, sum()/product(), impl Sum / impl Product over a source of vectors, Vec::zero()/one(), and the zero()-padded conversions Vec3::from(Vec2), Vec4::from(Vec3), Vec4::from(Vec2)"),
                    J::s("vek row_major/column_major Mat2/3/4: new, {from,into}_{row,col}_array(s), as_(mut_){row,col}_slice and _ptr, Index/IndexMut, transposed/transpose, From<other layout>, Mat3::from(Mat4) / Mat2::from(Mat4) / Mat2::from(Mat3), diagonal(), map_rows/map_cols/map/map2, Clone (clone and clone_from), Debug/Display/Hash/PartialEq, public rows/cols; Mat + Mat, -Mat, Default/identity()/zero(), and the zero()/one()-padded size conversions Mat4::from(Mat3), Mat4::from(Mat2), Mat3::from(Mat2) composed with the truncating ones"),
                    J::s("std: the provided Iterator/DoubleEndedIterator adaptors driven over the real iterator (find, position, try_fold, step_by, zip, peekable, collect, ...), unwinding (real panics, catch_unwind), mem::swap / mem::forget"),
                ])),
                ("stub", J::Arr(vec![
                    J::s("element types Tok / Wide256 / PlainNoDrop (ledger-reporting Drop/Debug/Display/PartialEq/Hash/Default/Clone/Ord, and identity-like Add/Mul/AddAssign/Neg/MulAdd/Zero/One impls that log their operands, destroy all but one and can unwind at their k-th call) and ZstDrop (counting)"),
                    J::s("source of vectors for Sum / Product (can unwind at its j-th next(); vectors it has not handed out go back to the caller)"),
                    J::s("caller (operation order, what it does with yielded elements, every closure handed to an adaptor or to map*, loop bodies)"),
                    J::s("formatter sink (can fail at its k-th write)"),
                    J::s("from_iter source iterator (EOF, surplus, not fused, lying size_hint; panics in next(), in size_hint() and in its own destructor)"),
                    J::s("Hasher (FNV-1a; can unwind at its k-th write)"),
                ])),
            ]),
        ),
        ("miri_pass", miri_summary),
        ("build_profile", J::s(BUILD_PROFILE)),
        ("second_build_configuration", second_cfg),
        ("known_findings_seen", J::Arr(known_lines.iter().map(|l| J::s(l.clone())).collect())),
        ("violation", viol_json),
    ]);
    let ev = J::obj(vec![
        ("property_id", J::s("C18")),
        ("tier", J::s(tier)),
        ("seed", J::i(seed as i64)),
        ("level", J::s("exploration")),
        ("coverage", coverage),
        (
            "assumptions",
            J::Arr(vec![
                J::s("seeded search, not enumeration: a clean batch is evidence, not proof"),
                J::s("repr(C) vectors on the stable toolchain only; repr_simd vectors cannot hold non-machine element types"),
                J::s("an element type whose destructor panics twice, or panics during unwinding, aborts by language rule and is not explored"),
                J::s("array/tuple/nested-array conversions and slice views contain no user callback, so no fault can be placed inside them; the simulator contributes ledger, model and composition there"),
                J::s("std (arrays, Vec, VecDeque, catch_unwind, slice::Iter::as_slice) is trusted"),
                J::s("arithmetic: only Add, Mul, AddAssign, Neg, MulAdd are instantiated (the other operators come from the same macro arms); the forms with a borrowed left operand (&v + w, &v + &w) are driven for the leaf element shapes with identities only; &v + &scalar, min/max/reduce_min.., dot and the Checked*/Overflowing*/Euclid lifts are not driven; what is checked is who owns which element, not the value computed"),
            ]),
        ),
        ("wall_s", J::Num((wall * 1000.0).round() / 1000.0)),
        ("violations", J::i(if exit == EXIT_VIOLATION { 1 } else { 0 })),
    ]);
    if let Some(dir) = std::path::Path::new(&evidence).parent() {
        let _ = std::fs::create_dir_all(dir);
    }
    if let Err(e) = std::fs::write(&evidence, ev.pretty()) {
        eprintln!("harness error: cannot write evidence {}: {}", evidence, e);
        return EXIT_HARNESS;
    }
    println!(
        "{} runs ({} non-trivial, {} distinct non-trivial), {} steps, {:.1}s; cursor states observed {}/{} cancelled {}/{}; core transitions {}/{}; faults fired: {:?}",
        st.runs, st.runs_nontrivial, res.distinct_nontrivial, st.ops_exec, wall, obs, reach, can, reach, core_hit, core_total, &st.fault_fired[..N_FAULTS]
    );
    if exit == EXIT_OK {
        println!("C18 held on everything explored");
    }
    exit
}

fn cmd_replay(pos: &[String], m: &HashMap<String, String>) -> i32 {
    let path = match pos.first() {
        Some(p) => p,
        None => {
            eprintln!("usage: replay FILE");
            return EXIT_HARNESS;
        }
    };
    let rf = match read_replay(path) {
        Ok(r) => r,
        Err(e) => {
            eprintln!("harness error: {}", e);
            return EXIT_HARNESS;
        }
    };
    let quiet = m.contains_key("quiet");
    if rf.class == tok::V12_MIRI_UB {
        // recorded by the Miri executor: re-interpret the history under Miri
        let simdir = self_exe().parent().and_then(|p| p.parent()).and_then(|p| p.parent()).map(|p| p.to_path_buf()).unwrap_or_else(|| "/verif/sim".into());
        let abs = std::fs::canonicalize(path).map(|p| p.to_string_lossy().to_string()).unwrap_or_else(|_| path.clone());
        let out = Command::new("cargo")
            .args(["+nightly", "miri", "run", "--offline", "--", "miri", &abs])
            .current_dir(&simdir)
            .env("MIRIFLAGS", "-Zmiri-disable-isolation")
            .env("CARGO_NET_OFFLINE", "true")
            .output();
        return match out {
            Ok(o) => {
                let err = String::from_utf8_lossy(&o.stderr).to_string();
                let so = String::from_utf8_lossy(&o.stdout).to_string();
                if !quiet {
                    println!("replaying {} under Miri (container {}, {} operations)", path, kind_name(rf.plan.kind), rf.plan.ops.len());
                    for l in so.lines().chain(err.lines().filter(|l| !l.trim_start().starts_with("Compiling") && !l.trim_start().starts_with("Finished") && !l.trim_start().starts_with("Running"))).take(80) {
                        println!("{}", l);
                    }
                }
                let c18_diag = err.lines().filter(|l| l.contains("error: ")).any(|l| ["dangling", "use-after-free", "has been freed", "out-of-bounds", "memory leaked", "double free"].iter().any(|k| l.contains(k)));
                if c18_diag {
                    println!("reproduced: Miri reports an error while interpreting this history");
                    println!("VIOLATION property=C18 replay={}", path);
                    EXIT_VIOLATION
                } else if o.status.code() == Some(EXIT_VIOLATION) {
                    println!("reproduced: the history is flagged by the ledger while being interpreted under Miri");
                    println!("VIOLATION property=C18 replay={}", path);
                    EXIT_VIOLATION
                } else if o.status.success() {
                    println!("not reproduced: Miri interprets the recorded history without error on this tree");
                    EXIT_OK
                } else {
                    eprintln!("harness error: Miri replay failed for another reason:\n{}", err);
                    EXIT_HARNESS
                }
            }
            Err(e) => {
                eprintln!("harness error: cannot start cargo miri: {}", e);
                EXIT_HARNESS
            }
        };
    }
    if rf.class == tok::V11_ABNORMAL_TERMINATION {
        // the recorded failure kills the process: re-execute in a child
        let errf = std::env::temp_dir().join(format!("vek-sim-replay-{}.err", std::process::id()));
        let r = supervise::run_isolated(&["exec-plan".into(), path.clone(), "--live".into()], std::time::Duration::from_secs(30), Some(&errf));
        if !quiet {
            println!("replaying {} (seed {}, run {}, container {}, {} operations) in a child process", path, rf.seed, rf.run, kind_name(rf.plan.kind), rf.plan.ops.len());
            if let Ok(t) = std::fs::read_to_string(&errf) {
                let lines: Vec<&str> = t.lines().collect();
                for l in lines.iter().skip(lines.len().saturating_sub(40)) {
                    println!("{}", l);
                }
            }
        }
        let _ = std::fs::remove_file(&errf);
        return match r {
            supervise::Iso::Signal(_) | supervise::Iso::Timeout => {
                println!("reproduced: the process executing the history {}", r.describe());
                println!("VIOLATION property=C18 replay={}", path);
                EXIT_VIOLATION
            }
            supervise::Iso::Exit(1) => {
                println!("a different violation occurs on this tree (the history no longer kills the process but is still flagged)");
                println!("VIOLATION property=C18 replay={}", path);
                EXIT_VIOLATION
            }
            supervise::Iso::Exit(0) => {
                println!("not reproduced: the recorded history runs clean on this tree");
                EXIT_OK
            }
            other => {
                eprintln!("harness error during replay: {}", other.describe());
                EXIT_HARNESS
            }
        };
    }
    let mut st = Stats::new();
    let o = run::execute(&rf.plan, &mut st, true);
    if !quiet {
        println!("replaying {} (seed {}, run {}, container {}, {} operations)", path, rf.seed, rf.run, kind_name(rf.plan.kind), rf.plan.ops.len());
        for l in &o.trace {
            println!("{}", l);
        }
    }
    if let Some(e) = &o.harness_error {
        eprintln!("harness error during replay: {}", e);
        return EXIT_HARNESS;
    }
    match &o.violation {
        Some(v) if v.class == rf.class && v.step == rf.step => {
            println!("reproduced: {} at step {}: {}", tok::class_name(v.class), v.step as i64, v.detail);
            if rf.digest != 0 && rf.digest != o.digest {
                println!("note: event-log digest differs from the recorded one ({:016x} vs {:016x}): the tree changed since the file was written", o.digest, rf.digest);
            }
            println!("VIOLATION property=C18 replay={}", path);
            EXIT_VIOLATION
        }
        Some(v) => {
            println!("a different violation occurs on this tree: {} at step {}: {}", tok::class_name(v.class), v.step as i64, v.detail);
            println!("VIOLATION property=C18 replay={}", path);
            EXIT_VIOLATION
        }
        None => {
            println!("not reproduced: the recorded history runs clean on this tree");
            EXIT_OK
        }
    }
}

fn cmd_digest(m: &HashMap<String, String>) -> i32 {
    let seed = get_u64(m, "seed", 1);
    let start = get_u64(m, "start", 0);
    let count = get_u64(m, "count", 2048);
    let workers = get_u64(m, "workers", 1) as usize;
    let res = run_batch(seed, start, count, workers, &[], false, None);
    if let Some((run, e)) = &res.harness_error {
        eprintln!("harness error in run {}: {}", run, e);
        return EXIT_HARNESS;
    }
    for d in &res.chunk_digests {
        println!("{:016x}", d);
    }
    println!("fold {:016x} violations {}", res.digest, res.first.is_some() as u8);
    EXIT_OK
}

fn cmd_gen(m: &HashMap<String, String>) -> i32 {
    let seed = get_u64(m, "seed", 1);
    let run = get_u64(m, "run", 0);
    let p = gen::gen_plan(seed, run);
    if m.contains_key("miri") {
        match miri_sanitise(&p) {
            Some(q) => print!("{}", plan_to_json(&q).pretty()),
            None => print!("null"),
        }
        return EXIT_OK;
    }
    print!("{}", plan_to_json(&p).pretty());
    EXIT_OK
}

fn cmd_exec_plan(pos: &[String], m: &HashMap<String, String>) -> i32 {
    if m.contains_key("live") {
        tok::set_live(true);
    }
    let path = match pos.first() {
        Some(p) => p,
        None => return EXIT_HARNESS,
    };
    let txt = match std::fs::read_to_string(path) {
        Ok(t) => t,
        Err(e) => {
            eprintln!("{}", e);
            return EXIT_HARNESS;
        }
    };
    let plan = match json::parse(&txt).and_then(|j| plan_from_json(&j)) {
        Ok(p) => p,
        Err(e) => {
            eprintln!("{}", e);
            return EXIT_HARNESS;
        }
    };
    let mut st = Stats::new();
    let o = run::execute(&plan, &mut st, true);
    for l in &o.trace {
        println!("{}", l);
    }
    match &o.violation {
        Some(v) => {
            println!("violation {} step {} op {} : {}", tok::class_name(v.class), v.step as i64, o.viol_op.map(|k| k.name()).unwrap_or("quiescence"), v.detail);
            EXIT_VIOLATION
        }
        None => {
            println!("clean");
            EXIT_OK
        }
    }
}

/// Second executor (thorough tier): the same plans, interpreted by Miri, single-threaded, no
/// files, no child processes. Under `cfg(miri)` every `Tok` owns a heap cell, so a read after
/// move, a double drop or an out-of-bounds read is a language-level error reported by Miri
/// itself, independently of the ledger. Plans are sanitised first: operations whose *intended*
/// effect is a leak (forget, drop-panic) are replaced by their leak-free form so that Miri's
/// leak check can stay on, and plans that go through the matrix array conversions are skipped
/// (they `mem::replace` into uninitialised storage, which Miri rejects for a reason that is
/// outside C18 — DESIGN.md 3.12).
fn miri_sanitise(p: &Plan) -> Option<Plan> {
    let mut q = p.clone();
    for op in q.ops.iter_mut() {
        match op.k {
            OpK::MFromFlat | OpK::MFromNested | OpK::MIntoFlat | OpK::MIntoNested => return None,
            OpK::Forget => *op = Op::new(OpK::Drop),
            // F10, the source's own destructor panics: the finished vector may be abandoned (R-unwind a)
            OpK::FromIterStub if op.a % 7 == 6 => op.a = 0,
            // drop-panic annotations (F4): their relaxation legitimately abandons elements
            OpK::Drop | OpK::TakeCount | OpK::RevTakeDrop | OpK::Nth | OpK::NthBack | OpK::Last | OpK::Count => op.f = 0,
            _ => {}
        }
    }
    Some(q)
}

fn cmd_miri(m: &HashMap<String, String>, pos: &[String]) -> i32 {
    use std::io::Write;
    if let Some(path) = pos.first() {
        // replay of one plan file under Miri
        let txt = match std::fs::read_to_string(path) {
            Ok(t) => t,
            Err(e) => {
                eprintln!("{}", e);
                return EXIT_HARNESS;
            }
        };
        let plan = match json::parse(&txt).and_then(|j| plan_from_json(&j)) {
            Ok(p) => p,
            Err(e) => {
                eprintln!("{}", e);
                return EXIT_HARNESS;
            }
        };
        let mut st = Stats::new();
        let o = run::execute(&plan, &mut st, true);
        for l in &o.trace {
            println!("{}", l);
        }
        return match &o.violation {
            Some(v) => {
                println!("violation {} step {} : {}", tok::class_name(v.class), v.step as i64, v.detail);
                EXIT_VIOLATION
            }
            None => {
                println!("clean");
                EXIT_OK
            }
        };
    }
    let seed = get_u64(m, "seed", 1);
    let start = get_u64(m, "start", 0);
    let count = get_u64(m, "count", 16);
    let max_dim = get_u64(m, "max-dim", 64) as usize;
    let mut st = Stats::new();
    let (mut done, mut skipped) = (0u64, 0u64);
    let out = std::io::stdout();
    for run in start..start + count {
        let plan = gen::gen_plan(seed, run);
        let plan = match miri_sanitise(&plan) {
            Some(p) if kind_dim(p.kind) <= max_dim || p.kind >= N_VEC_KINDS => p,
            _ => {
                skipped += 1;
                continue;
            }
        };
        {
            let mut o = out.lock();
            let _ = writeln!(o, "RUN {}", run);
            let _ = o.flush();
        }
        let o = run::execute(&plan, &mut st, false);
        if let Some(e) = &o.harness_error {
            println!("HARNESS-ERROR run {}: {}", run, e);
            return EXIT_HARNESS;
        }
        if let Some(v) = &o.violation {
            println!("LEDGER-VIOLATION run {} {} step {} : {}", run, tok::class_name(v.class), v.step as i64, v.detail);
            return EXIT_VIOLATION;
        }
        done += 1;
    }
    println!(
        "MIRI-SUMMARY seed={} start={} count={} executed={} skipped={} steps={} drops={} touches={} panics_fired={}",
        seed,
        start,
        count,
        done,
        skipped,
        st.ops_exec,
        st.callbacks_drop,
        st.callbacks_touch,
        st.fault_fired[F_OBSERVE_PANIC] + st.fault_fired[F_DEFAULT_PANIC] + st.fault_fired[F_SOURCE]
    );
    EXIT_OK
}

fn main() {
    exec::install_panic_hook();
    let args: Vec<String> = std::env::args().skip(1).collect();
    if args.is_empty() {
        eprintln!("usage: vek-sim check|replay|digest|gen|exec-plan ...");
        std::process::exit(EXIT_HARNESS);
    }
    let (m, pos) = args_map(&args[1..]);
    let code = match args[0].as_str() {
        "check" => cmd_check(&m, &args[1..]),
        "replay" => cmd_replay(&pos, &m),
        "digest" => cmd_digest(&m),
        "gen" => cmd_gen(&m),
        "exec-plan" => cmd_exec_plan(&pos, &m),
        "miri" => cmd_miri(&m, &pos),
        other => {
            eprintln!("unknown command {}", other);
            EXIT_HARNESS
        }
    };
    std::process::exit(code);
}
