//! The ownership-tracking element type `Tok` and its thread-local ledger (oracle 1).
//!
//! `Tok` is plain data (`id`, `val`); every user-visible trait method on it (`Drop`,
//! `Debug`, `PartialEq`, `Hash`, `Default`, `Clone`) reports to the ledger and is a
//! fault point. The ledger bounds-checks `id` and cross-checks `val`, so the harness
//! itself stays free of undefined behaviour even when a broken vek hands it garbage.

use std::cell::RefCell;
use std::fmt;
use std::hash::{Hash, Hasher};

use crate::rng::{fnv_step, FNV_INIT};

// ---- owners (who, according to the reference model, holds an element right now) ----
pub const OWN_HARNESS: u8 = 0; // source buffers, leftovers, fresh tokens not yet handed over
pub const OWN_MAIN: u8 = 1; // the container / iterator under test
pub const OWN_BAG: u8 = 2; // yielded to the caller
pub const OWN_TWIN: u8 = 3; // the second iterator used for `==`
pub const OWN_DOOMED: u8 = 4; // the model says the current operation drops it
pub const OWN_FRESH: u8 = 5; // created by `Default`/`Clone` during the current operation
pub const OWN_INNER: u8 = 6; // inner iterator of a nested history
pub const OWN_CLONE: u8 = 7; // clone-probe copy of the iterator

#[inline]
pub const fn m(o: u8) -> u16 {
    1u16 << o
}

// ---- violation classes (stable codes; part of replay files and known-findings keys) ----
pub const V1_DOUBLE_DROP: u8 = 1;
pub const V2_UNKNOWN_ELEMENT: u8 = 2;
pub const V3_TOUCH_AFTER_DROP: u8 = 3;
pub const V4_READ_AFTER_YIELD: u8 = 4;
pub const V5_ORDER: u8 = 5;
pub const V6_LENGTH: u8 = 6;
pub const V7_LEAK: u8 = 7;
pub const V8_UNEXPECTED_DROP: u8 = 8;
pub const V9_ALIAS: u8 = 9;
pub const V10_UNEXPECTED_PANIC: u8 = 10;
pub const V11_ABNORMAL_TERMINATION: u8 = 11;
pub const V12_MIRI_UB: u8 = 12;

pub fn class_name(c: u8) -> &'static str {
    match c {
        1 => "V1-double-drop",
        2 => "V2-unknown-element",
        3 => "V3-touch-after-drop",
        4 => "V4-read-after-yield",
        5 => "V5-order",
        6 => "V6-length",
        7 => "V7-leak",
        8 => "V8-unexpected-drop",
        9 => "V9-alias",
        10 => "V10-unexpected-panic",
        11 => "V11-abnormal-termination",
        12 => "V12-miri-undefined-behaviour",
        _ => "V?-unknown",
    }
}

#[derive(Clone, Debug, PartialEq, Eq)]
pub struct Violation {
    pub class: u8,
    /// index of the operation during which it was raised (u32::MAX = end of run)
    pub step: u32,
    pub detail: String,
}

#[derive(Clone, Copy, PartialEq, Eq, Debug)]
pub enum St {
    Live,
    Dropped,
    Forgotten,
    MayLeak,
}

#[derive(Clone, Copy, PartialEq, Eq, Debug)]
pub enum Origin {
    Workload,
    Default,
    Clone,
}

pub struct Rec {
    pub st: St,
    pub origin: Origin,
    pub val: u32,
    pub owner: u8,
    /// element of a type without drop glue (`Plain`): its destruction is not observable, the
    /// harness marks it destroyed where the model says it is (`virtual_drop`)
    pub nodrop: bool,
}

// ---- callback classes for fault plans ----
#[derive(Clone, Copy, PartialEq, Eq, Debug)]
pub enum Cb {
    /// fmt / eq / hash / clone
    Observe,
    Drop,
    Default,
}

pub const EV_NEW: u64 = 1;
pub const EV_DROP: u64 = 2;
pub const EV_FMT: u64 = 3;
pub const EV_EQ: u64 = 4;
pub const EV_HASH: u64 = 5;
pub const EV_DEFAULT: u64 = 6;
pub const EV_CLONE: u64 = 7;
pub const EV_INJECT: u64 = 8;
pub const EV_OP: u64 = 9;
pub const EV_NOTE: u64 = 10;

/// Payload of an injected panic, so it can be told from a genuine one.
pub struct Injected;

pub struct Ledger {
    pub recs: Vec<Rec>,
    pub step: u32,
    allow_drop: u16,
    allow_touch: u16,
    plan: Option<(Cb, u32)>,
    counter: u32,
    pub fired: bool,
    /// true between `begin_op` and `end_op`: real code is running inside a `catch_unwind`
    in_op: bool,
    /// print trace lines at once instead of buffering them (crash-isolation children)
    pub live: bool,
    pub drops_in_op: u32,
    pub touches_in_op: u32,
    pub fresh_in_op: Vec<u32>,
    pub digest: u64,
    pub nevents: u64,
    pub viol: Option<Violation>,
    pub trace: Option<Vec<String>>,
    // totals for the evidence file
    pub total_drops: u64,
    pub total_touches: u64,
    pub total_defaults: u64,
}

impl Ledger {
    fn new() -> Self {
        Ledger {
            recs: Vec::with_capacity(256),
            step: 0,
            allow_drop: 0,
            allow_touch: 0,
            plan: None,
            counter: 0,
            fired: false,
            in_op: false,
            live: false,
            drops_in_op: 0,
            touches_in_op: 0,
            fresh_in_op: Vec::new(),
            digest: FNV_INIT,
            nevents: 0,
            viol: None,
            trace: None,
            total_drops: 0,
            total_touches: 0,
            total_defaults: 0,
        }
    }

    #[inline]
    fn ev(&mut self, kind: u64, a: u64) {
        self.digest = fnv_step(fnv_step(self.digest, kind), a);
        self.nevents += 1;
        if let Some(t) = self.trace.as_mut() {
            let name = match kind {
                EV_NEW => "new",
                EV_DROP => "drop",
                EV_FMT => "fmt",
                EV_EQ => "eq",
                EV_HASH => "hash",
                EV_DEFAULT => "default",
                EV_CLONE => "clone",
                EV_INJECT => "INJECTED-PANIC",
                EV_OP => "op",
                _ => "note",
            };
            let line = format!("    [{}] {} {}", self.step, name, a);
            if self.live {
                eprintln!("{}", line);
            }
            t.push(line);
        }
    }

    /// Once a violation has been recorded the state is no longer trusted. A callback that
    /// arrives while real code is still running inside an operation bracket then unwinds, so
    /// that a broken container cannot keep the run alive forever (an iterator that never
    /// ends, for instance). Never while already unwinding (that would abort).
    #[inline]
    fn abandon(&self) -> bool {
        self.viol.is_some() && self.in_op && !std::thread::panicking()
    }

    pub fn raise(&mut self, class: u8, detail: String) {
        self.ev(EV_NOTE, 1000 + class as u64);
        if let Some(t) = self.trace.as_mut() {
            let line = format!("    [{}] !! {}: {}", self.step, class_name(class), detail);
            if self.live {
                eprintln!("{}", line);
            }
            t.push(line);
        }
        if self.viol.is_none() {
            self.viol = Some(Violation { class, step: self.step, detail });
        }
    }

    fn lookup(&mut self, what: &str, id: u32, val: u32) -> bool {
        match self.recs.get(id as usize) {
            Some(r) if r.val == val => true,
            Some(_) => {
                self.raise(V2_UNKNOWN_ELEMENT, format!("{} on id {} with mismatching payload (torn or garbage read)", what, id));
                false
            }
            None => {
                self.raise(V2_UNKNOWN_ELEMENT, format!("{} on an element the ledger never issued (garbage read)", what));
                false
            }
        }
    }

    fn want_inject(&mut self, cb: Cb) -> bool {
        if let Some((k, at)) = self.plan {
            if k == cb && !self.fired {
                self.counter += 1;
                if self.counter == at && !std::thread::panicking() {
                    self.fired = true;
                    self.ev(EV_INJECT, at as u64);
                    return true;
                }
            }
        }
        false
    }

    fn on_new(&mut self, val: u32, owner: u8, origin: Origin) -> u32 {
        let id = self.recs.len() as u32;
        self.recs.push(Rec { st: St::Live, origin, val, owner, nodrop: false });
        self.ev(EV_NEW, id as u64);
        id
    }

    fn on_drop(&mut self, id: u32, val: u32) -> bool {
        if self.abandon() {
            return true;
        }
        self.ev(EV_DROP, id as u64);
        self.total_drops += 1;
        if !self.lookup("drop", id, val) {
            return false;
        }
        let (st, owner) = {
            let r = &self.recs[id as usize];
            (r.st, r.owner)
        };
        match st {
            St::Live => {}
            St::Dropped => {
                self.raise(V1_DOUBLE_DROP, format!("id {} dropped a second time", id));
                return false;
            }
            St::Forgotten | St::MayLeak => {
                self.raise(V1_DOUBLE_DROP, format!("id {} dropped after its container was forgotten / abandoned by an unwinding drop", id));
                return false;
            }
        }
        self.recs[id as usize].st = St::Dropped;
        self.drops_in_op += 1;
        if self.allow_drop & m(owner) == 0 {
            self.raise(V8_UNEXPECTED_DROP, format!("id {} (owner {}) dropped by an operation the model does not allow to drop it", id, owner_name(owner)));
            return false;
        }
        self.want_inject(Cb::Drop)
    }

    fn on_touch(&mut self, kind: u64, what: &str, id: u32, val: u32) -> bool {
        if self.abandon() {
            return true;
        }
        self.ev(kind, id as u64);
        self.total_touches += 1;
        if !self.lookup(what, id, val) {
            return false;
        }
        let (st, owner) = {
            let r = &self.recs[id as usize];
            (r.st, r.owner)
        };
        self.touches_in_op += 1;
        if st != St::Live {
            self.raise(V3_TOUCH_AFTER_DROP, format!("{} on id {} which is {:?}", what, id, st));
            return false;
        }
        if self.allow_touch & m(owner) == 0 {
            let cls = if owner == OWN_BAG || owner == OWN_DOOMED { V4_READ_AFTER_YIELD } else { V4_READ_AFTER_YIELD };
            self.raise(cls, format!("{} on id {} (owner {}) which the observed container no longer holds", what, id, owner_name(owner)));
            return false;
        }
        self.want_inject(Cb::Observe)
    }
}

pub fn owner_name(o: u8) -> &'static str {
    match o {
        OWN_HARNESS => "harness",
        OWN_MAIN => "container",
        OWN_BAG => "caller(yielded)",
        OWN_TWIN => "twin",
        OWN_DOOMED => "doomed",
        OWN_FRESH => "fresh",
        OWN_INNER => "inner",
        OWN_CLONE => "clone",
        _ => "?",
    }
}

thread_local! {
    static LEDGER: RefCell<Ledger> = RefCell::new(Ledger::new());
}

#[inline]
pub fn with<R>(f: impl FnOnce(&mut Ledger) -> R) -> R {
    LEDGER.with(|l| f(&mut l.borrow_mut()))
}

/// Start a new run on this thread.
pub fn reset(trace: bool) {
    with(|l| {
        l.recs.clear();
        l.step = 0;
        l.allow_drop = 0;
        l.allow_touch = 0;
        l.plan = None;
        l.counter = 0;
        l.fired = false;
        l.in_op = false;
        l.drops_in_op = 0;
        l.touches_in_op = 0;
        l.fresh_in_op.clear();
        l.digest = FNV_INIT;
        l.nevents = 0;
        l.viol = None;
        l.trace = if trace { Some(Vec::new()) } else { None };
        l.total_drops = 0;
        l.total_touches = 0;
        l.total_defaults = 0;
    });
}

/// Open the bracket of one operation: which owners may see a `Drop`, which may be touched
/// by `fmt`/`eq`/`hash`/`clone`, and the (at most one) injected panic.
pub fn begin_op(allow_drop: u16, allow_touch: u16, plan: Option<(Cb, u32)>) {
    with(|l| {
        l.allow_drop = allow_drop;
        l.allow_touch = allow_touch;
        l.plan = plan;
        l.counter = 0;
        l.fired = false;
        l.in_op = true;
        l.drops_in_op = 0;
        l.touches_in_op = 0;
        l.fresh_in_op.clear();
    });
}

/// Close the bracket. Returns whether the planned panic actually fired.
pub fn end_op() -> bool {
    with(|l| {
        l.allow_drop = 0;
        l.allow_touch = 0;
        l.plan = None;
        l.in_op = false;
        l.fired
    })
}

pub fn note(kind: u64, a: u64) {
    with(|l| l.ev(kind, a));
}
pub fn trace_line(s: impl FnOnce() -> String) {
    with(|l| {
        if l.trace.is_some() {
            let line = s();
            if l.live {
                eprintln!("{}", line);
            }
            l.trace.as_mut().unwrap().push(line);
        }
    });
}
pub fn set_live(on: bool) {
    with(|l| l.live = on);
}
/// Used by harness closures that run inside an operation bracket (fold accumulators, ...).
pub fn should_abandon() -> bool {
    with(|l| l.abandon())
}
pub fn raise(class: u8, detail: String) {
    with(|l| l.raise(class, detail));
}
pub fn has_violation() -> bool {
    with(|l| l.viol.is_some())
}
pub fn set_owner(id: u32, owner: u8) {
    with(|l| {
        if let Some(r) = l.recs.get_mut(id as usize) {
            r.owner = owner;
        }
    });
}
pub fn owner_of(id: u32) -> u8 {
    with(|l| l.recs.get(id as usize).map(|r| r.owner).unwrap_or(255))
}
pub fn state_of(id: u32) -> Option<St> {
    with(|l| l.recs.get(id as usize).map(|r| r.st))
}
/// For an element without drop glue: the model says it is destroyed now. Returns whether the
/// element counts as destroyed afterwards (for every other element: whether it was dropped).
pub fn gone(id: u32) -> bool {
    with(|l| match l.recs.get_mut(id as usize) {
        Some(r) => {
            if r.nodrop && r.st == St::Live {
                r.st = St::Dropped;
            }
            r.st == St::Dropped
        }
        None => false,
    })
}
pub fn is_nodrop(id: u32) -> bool {
    with(|l| l.recs.get(id as usize).map(|r| r.nodrop).unwrap_or(false))
}
pub fn val_of(id: u32) -> Option<u32> {
    with(|l| l.recs.get(id as usize).map(|r| r.val))
}
pub fn origin_of(id: u32) -> Option<Origin> {
    with(|l| l.recs.get(id as usize).map(|r| r.origin))
}
pub fn set_state(id: u32, st: St) {
    with(|l| {
        if let Some(r) = l.recs.get_mut(id as usize) {
            r.st = st;
        }
    });
}
pub fn fresh_in_op() -> Vec<u32> {
    with(|l| l.fresh_in_op.clone())
}
/// Validate an (id, val) pair that the harness read through a public field or a yielded
/// value, without any callback. Raises V2 when it is not something the ledger issued.
pub fn check_read(what: &str, id: u32, val: u32) -> bool {
    with(|l| l.lookup(what, id, val))
}

// ------------------------------------------------------------------------------------

#[repr(C)]
pub struct Tok {
    pub id: u32,
    pub val: u32,
    /// Under Miri every element owns heap memory, so a read after move, a double drop or a
    /// leak is a language-level error that does not rely on the ledger at all.
    #[cfg(miri)]
    heap: Box<u32>,
}

impl Tok {
    pub fn new(val: u32, owner: u8) -> Tok {
        let id = with(|l| l.on_new(val, owner, Origin::Workload));
        Tok {
            id,
            val,
            #[cfg(miri)]
            heap: Box::new(id),
        }
    }
}

impl Tok {
    /// A value created by an operator of the `&a + &b` kind during the current operation.
    pub fn made_by_operator(val: u32) -> Tok {
        let id = with(|l| {
            let id = l.on_new(val, OWN_FRESH, Origin::Clone);
            l.fresh_in_op.push(id);
            id
        });
        Tok {
            id,
            val,
            #[cfg(miri)]
            heap: Box::new(id),
        }
    }
}
impl Plain {
    pub fn made_by_operator(val: u32) -> Plain {
        let id = with(|l| {
            let id = l.on_new(val, OWN_FRESH, Origin::Clone);
            l.recs[id as usize].nodrop = true;
            l.fresh_in_op.push(id);
            id
        });
        Plain { id, val }
    }
}

pub const DEFAULT_VAL: u32 = 0x00DE_FA17;

impl Default for Tok {
    fn default() -> Tok {
        let (inject, id) = with(|l| {
            l.total_defaults += 1;
            if l.abandon() || l.want_inject(Cb::Default) {
                return (true, 0);
            }
            let id = l.on_new(DEFAULT_VAL, OWN_FRESH, Origin::Default);
            l.ev(EV_DEFAULT, id as u64);
            l.fresh_in_op.push(id);
            (false, id)
        });
        if inject {
            std::panic::panic_any(Injected);
        }
        Tok {
            id,
            val: DEFAULT_VAL,
            #[cfg(miri)]
            heap: Box::new(id),
        }
    }
}

impl Drop for Tok {
    fn drop(&mut self) {
        #[cfg(miri)]
        {
            // touch the heap cell: a double drop / use after free is caught here by Miri
            let _ = *self.heap;
        }
        let inject = with(|l| l.on_drop(self.id, self.val));
        if inject {
            std::panic::panic_any(Injected);
        }
    }
}

impl fmt::Debug for Tok {
    fn fmt(&self, f: &mut fmt::Formatter<'_>) -> fmt::Result {
        #[cfg(miri)]
        {
            let _ = *self.heap;
        }
        if with(|l| l.on_touch(EV_FMT, "fmt", self.id, self.val)) {
            std::panic::panic_any(Injected);
        }
        write!(f, "t{}", self.val)
    }
}

/// `Display` exists so that the `Display` impls of vectors and matrices (which walk their
/// elements, the column-major one through unchecked reads) can be observed like `Debug`.
impl fmt::Display for Tok {
    fn fmt(&self, f: &mut fmt::Formatter<'_>) -> fmt::Result {
        #[cfg(miri)]
        {
            let _ = *self.heap;
        }
        if with(|l| l.on_touch(EV_FMT, "display", self.id, self.val)) {
            std::panic::panic_any(Injected);
        }
        write!(f, "t{}", self.val)
    }
}

/// Only ever invoked through the ordering probe (if `IntoIter<Tok>` gains `PartialOrd`/`Ord`).
impl PartialOrd for Tok {
    fn partial_cmp(&self, other: &Tok) -> Option<std::cmp::Ordering> {
        Some(self.cmp(other))
    }
}
impl Ord for Tok {
    fn cmp(&self, other: &Tok) -> std::cmp::Ordering {
        #[cfg(miri)]
        {
            let _ = *self.heap;
            let _ = *other.heap;
        }
        let a = with(|l| l.on_touch(EV_EQ, "cmp", self.id, self.val));
        let b = with(|l| l.on_touch(EV_EQ, "cmp", other.id, other.val));
        if a || b {
            std::panic::panic_any(Injected);
        }
        self.val.cmp(&other.val)
    }
}

impl PartialEq for Tok {
    fn eq(&self, other: &Tok) -> bool {
        #[cfg(miri)]
        {
            let _ = *self.heap;
            let _ = *other.heap;
        }
        let a = with(|l| l.on_touch(EV_EQ, "eq", self.id, self.val));
        let b = with(|l| l.on_touch(EV_EQ, "eq", other.id, other.val));
        if a || b {
            std::panic::panic_any(Injected);
        }
        self.val == other.val
    }
}
impl Eq for Tok {}

impl Hash for Tok {
    fn hash<H: Hasher>(&self, state: &mut H) {
        #[cfg(miri)]
        {
            let _ = *self.heap;
        }
        if with(|l| l.on_touch(EV_HASH, "hash", self.id, self.val)) {
            std::panic::panic_any(Injected);
        }
        state.write_u32(self.val);
    }
}

/// Only ever invoked through the clone probe (if `IntoIter<Tok>` is `Clone`) and never by the
/// harness itself; a clone is a *new* element (new id), and cloning counts as a touch of the
/// source.
impl Clone for Tok {
    fn clone(&self) -> Tok {
        #[cfg(miri)]
        {
            let _ = *self.heap;
        }
        if with(|l| l.on_touch(EV_CLONE, "clone", self.id, self.val)) {
            std::panic::panic_any(Injected);
        }
        let id = with(|l| {
            let id = l.on_new(self.val, OWN_FRESH, Origin::Clone);
            l.fresh_in_op.push(id);
            id
        });
        Tok {
            id,
            val: self.val,
            #[cfg(miri)]
            heap: Box::new(id),
        }
    }
}

thread_local! {
    /// fault kind F9: (the write at which the hasher unwinds, writes so far, fired)
    static HASH_FAIL: std::cell::Cell<(usize, usize, bool)> = std::cell::Cell::new((0, 0, false));
}
/// Arm (k > 0) or disarm (k = 0) the panicking hasher for the next hash observation.
pub fn set_hash_fail(k: u32) {
    HASH_FAIL.with(|c| c.set((k as usize, 0, false)));
}
/// Whether the armed hasher panic happened; disarms.
pub fn take_hash_fired() -> bool {
    HASH_FAIL.with(|c| {
        let f = c.get().2;
        c.set((0, 0, false));
        f
    })
}

/// Deterministic hasher (removes `RandomState` as a nondeterminism source). With fault kind F9
/// armed its k-th `write` unwinds: a `Hasher` is caller-supplied code like any closure.
pub struct StubHasher(pub u64);
impl StubHasher {
    pub fn new() -> Self {
        StubHasher(FNV_INIT)
    }
}
impl Hasher for StubHasher {
    fn finish(&self) -> u64 {
        self.0
    }
    fn write(&mut self, bytes: &[u8]) {
        let hit = HASH_FAIL.with(|c| {
            let (at, n, fired) = c.get();
            if at == 0 {
                return false;
            }
            let n = n + 1;
            let hit = n == at && !std::thread::panicking();
            c.set((at, n, fired || hit));
            hit
        });
        if hit {
            note(EV_INJECT, 9000);
            std::panic::panic_any(Injected);
        }
        for &b in bytes {
            self.0 ^= b as u64;
            self.0 = self.0.wrapping_mul(0x0000_0100_0000_01B3);
        }
    }
}

// ------------------------------------------------------------------------------------
/// A third element shape: identity-tracked like `Tok`, but **without drop glue** (no `Drop`
/// impl, no heap). Code paths guarded by `mem::needs_drop::<T>()` take their other branch for it.
/// Its destruction is unobservable, so for runs with this element the oracles check order,
/// length reports, aliasing and read-after-yield, not drop accounting.
#[repr(C)]
pub struct Plain {
    pub id: u32,
    pub val: u32,
}
impl Plain {
    pub fn new(val: u32, owner: u8) -> Plain {
        let id = with(|l| {
            let id = l.on_new(val, owner, Origin::Workload);
            l.recs[id as usize].nodrop = true;
            id
        });
        Plain { id, val }
    }
}
impl Default for Plain {
    fn default() -> Plain {
        let (inject, id) = with(|l| {
            l.total_defaults += 1;
            if l.abandon() || l.want_inject(Cb::Default) {
                return (true, 0);
            }
            let id = l.on_new(DEFAULT_VAL, OWN_FRESH, Origin::Default);
            l.recs[id as usize].nodrop = true;
            l.ev(EV_DEFAULT, id as u64);
            l.fresh_in_op.push(id);
            (false, id)
        });
        if inject {
            std::panic::panic_any(Injected);
        }
        Plain { id, val: DEFAULT_VAL }
    }
}
impl fmt::Debug for Plain {
    fn fmt(&self, f: &mut fmt::Formatter<'_>) -> fmt::Result {
        if with(|l| l.on_touch(EV_FMT, "fmt", self.id, self.val)) {
            std::panic::panic_any(Injected);
        }
        write!(f, "p{}", self.val)
    }
}
impl fmt::Display for Plain {
    fn fmt(&self, f: &mut fmt::Formatter<'_>) -> fmt::Result {
        if with(|l| l.on_touch(EV_FMT, "display", self.id, self.val)) {
            std::panic::panic_any(Injected);
        }
        write!(f, "p{}", self.val)
    }
}
impl PartialEq for Plain {
    fn eq(&self, other: &Plain) -> bool {
        let a = with(|l| l.on_touch(EV_EQ, "eq", self.id, self.val));
        let b = with(|l| l.on_touch(EV_EQ, "eq", other.id, other.val));
        if a || b {
            std::panic::panic_any(Injected);
        }
        self.val == other.val
    }
}
impl PartialOrd for Plain {
    fn partial_cmp(&self, other: &Plain) -> Option<std::cmp::Ordering> {
        Some(self.cmp(other))
    }
}
impl Eq for Plain {}
impl Ord for Plain {
    fn cmp(&self, other: &Plain) -> std::cmp::Ordering {
        let a = with(|l| l.on_touch(EV_EQ, "cmp", self.id, self.val));
        let b = with(|l| l.on_touch(EV_EQ, "cmp", other.id, other.val));
        if a || b {
            std::panic::panic_any(Injected);
        }
        self.val.cmp(&other.val)
    }
}
impl Hash for Plain {
    fn hash<H: Hasher>(&self, state: &mut H) {
        if with(|l| l.on_touch(EV_HASH, "hash", self.id, self.val)) {
            std::panic::panic_any(Injected);
        }
        state.write_u32(self.val);
    }
}
impl Clone for Plain {
    fn clone(&self) -> Plain {
        if with(|l| l.on_touch(EV_CLONE, "clone", self.id, self.val)) {
            std::panic::panic_any(Injected);
        }
        let id = with(|l| {
            let id = l.on_new(self.val, OWN_FRESH, Origin::Clone);
            l.recs[id as usize].nodrop = true;
            l.fresh_in_op.push(id);
            id
        });
        Plain { id, val: self.val }
    }
}
