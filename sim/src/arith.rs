//! Arithmetic on ownership-tracked elements (operation `VArith`).
//!
//! vek's element-wise operators, `mul_add`, `sum()`/`product()` and `Sum`/`Product` are generic: with
//! an element type that is not `Copy` (a big-number type) they *move* elements — every operand is
//! handed to exactly one call of the element's own operator impl, which consumes it. The element
//! types of the harness implement the operators "identity-like": a call reports its operands to a
//! thread-local log, may unwind (fault kind F11: the element's operator impl panics at its k-th
//! call), destroys all operands but one and returns that one. Nothing is created, so the ledger
//! stays the complete account of who owns what.

use std::cell::RefCell;
use std::ops::*;

use vek::num_traits::{MulAdd, One, Zero};

use crate::tok::{self, Injected, Plain, Tok, EV_INJECT, EV_NOTE};

pub const NONE: u32 = u32::MAX;

#[derive(Clone, Copy, PartialEq, Eq, Debug)]
pub struct Call {
    /// operands in argument order (`NONE` where the operator has fewer)
    pub args: [u32; 3],
    /// the operand that is returned
    pub kept: u32,
    /// operands that were only borrowed (bit i = argument i)
    pub borrowed: u8,
}

pub struct Arith {
    pub panic_at: usize,
    pub keep_last: bool,
    pub calls: usize,
    pub fired: bool,
    pub log: Vec<Call>,
}

thread_local! {
    static ARITH: RefCell<Arith> = RefCell::new(Arith { panic_at: 0, keep_last: false, calls: 0, fired: false, log: Vec::new() });
}

/// Arm the hook for one operation: `panic_at` = the call that unwinds (0 = none), `keep_last` =
/// operators return their last by-value operand instead of `self`.
pub fn arm(panic_at: u32, keep_last: bool) {
    ARITH.with(|a| {
        let mut a = a.borrow_mut();
        a.panic_at = panic_at as usize;
        a.keep_last = keep_last;
        a.calls = 0;
        a.fired = false;
        a.log.clear();
    });
}
/// Disarm and return (calls, fired, log).
pub fn take() -> (usize, bool, Vec<Call>) {
    ARITH.with(|a| {
        let mut a = a.borrow_mut();
        a.panic_at = 0;
        let log = std::mem::take(&mut a.log);
        (a.calls, a.fired, log)
    })
}
fn keep_last() -> bool {
    ARITH.with(|a| a.borrow().keep_last)
}

/// Every operator call of every element type goes through here. Returns nothing; may unwind.
fn hit(args: [(u32, u32); 3], borrowed: u8, kept: u32) {
    if tok::should_abandon() {
        std::panic::panic_any(Injected);
    }
    // every operand must be something the ledger issued, and alive
    for (i, &(id, val)) in args.iter().enumerate() {
        if id == NONE {
            continue;
        }
        if tok::check_read("operator", id, val) && tok::state_of(id) != Some(tok::St::Live) {
            tok::raise(
                tok::V3_TOUCH_AFTER_DROP,
                format!("an element's operator impl was handed id {} (argument {}) which is {:?}", id, i, tok::state_of(id)),
            );
        }
    }
    let inject = ARITH.with(|a| {
        let mut a = a.borrow_mut();
        a.calls += 1;
        if a.calls > 4096 {
            return true;
        }
        a.log.push(Call { args: [args[0].0, args[1].0, args[2].0], kept, borrowed });
        if a.panic_at != 0 && a.calls == a.panic_at && !std::thread::panicking() {
            a.fired = true;
            return true;
        }
        false
    });
    tok::note(EV_NOTE, 9000);
    if inject {
        tok::note(EV_INJECT, 9100);
        std::panic::panic_any(Injected);
    }
}

/// The value the last logged call returned was created by it (the `&a + &b` forms).
fn set_last_kept(id: u32) {
    ARITH.with(|a| {
        if let Some(c) = a.borrow_mut().log.last_mut() {
            c.kept = id;
        }
    });
}

const NO: (u32, u32) = (NONE, 0);

macro_rules! leaf_binop {
    ($T:ty, $($Tr:ident $m:ident),+) => {$(
        impl $Tr<$T> for $T {
            type Output = $T;
            fn $m(self, rhs: $T) -> $T {
                let kl = keep_last();
                hit([(self.id, self.val), (rhs.id, rhs.val), NO], 0, if kl { rhs.id } else { self.id });
                if kl {
                    drop(self);
                    rhs
                } else {
                    drop(rhs);
                    self
                }
            }
        }
    )+};
}
macro_rules! leaf_assign {
    ($T:ty, $($Tr:ident $m:ident),+) => {$(
        impl $Tr<$T> for $T {
            fn $m(&mut self, mut rhs: $T) {
                let kl = keep_last();
                hit([(self.id, self.val), (rhs.id, rhs.val), NO], 0, if kl { rhs.id } else { self.id });
                if kl {
                    std::mem::swap(self, &mut rhs);
                }
                drop(rhs);
            }
        }
    )+};
}

macro_rules! leaf_arith {
    ($T:ty) => {
        leaf_binop!($T, Add add, Sub sub, Mul mul, Div div, Rem rem, BitAnd bitand, BitOr bitor, BitXor bitxor, Shl shl, Shr shr);
        leaf_assign!($T, AddAssign add_assign, SubAssign sub_assign, MulAssign mul_assign, DivAssign div_assign, RemAssign rem_assign, BitAndAssign bitand_assign, BitOrAssign bitor_assign, BitXorAssign bitxor_assign, ShlAssign shl_assign, ShrAssign shr_assign);
        impl Not for $T {
            type Output = $T;
            fn not(self) -> $T {
                hit([(self.id, self.val), NO, NO], 0, self.id);
                self
            }
        }
        impl<'a> Add<&'a $T> for $T {
            type Output = $T;
            fn add(self, rhs: &'a $T) -> $T {
                hit([(self.id, self.val), (rhs.id, rhs.val), NO], 0b10, self.id);
                self
            }
        }
        impl<'a> Add<$T> for &'a $T {
            type Output = $T;
            fn add(self, rhs: $T) -> $T {
                hit([(self.id, self.val), (rhs.id, rhs.val), NO], 0b01, rhs.id);
                rhs
            }
        }
        impl<'a, 'b> Add<&'b $T> for &'a $T {
            type Output = $T;
            fn add(self, rhs: &'b $T) -> $T {
                hit([(self.id, self.val), (rhs.id, rhs.val), NO], 0b11, NONE);
                // a new value: created by this call, owned by whoever receives it
                let out = <$T>::made_by_operator(self.val);
                set_last_kept(out.id);
                out
            }
        }
        impl Neg for $T {
            type Output = $T;
            fn neg(self) -> $T {
                hit([(self.id, self.val), NO, NO], 0, self.id);
                self
            }
        }
        impl MulAdd<$T, $T> for $T {
            type Output = $T;
            fn mul_add(self, a: $T, b: $T) -> $T {
                let kl = keep_last();
                hit([(self.id, self.val), (a.id, a.val), (b.id, b.val)], 0, if kl { b.id } else { self.id });
                if kl {
                    drop(self);
                    drop(a);
                    b
                } else {
                    drop(b);
                    drop(a);
                    self
                }
            }
        }
        impl Zero for $T {
            fn zero() -> $T {
                <$T as Default>::default()
            }
            fn is_zero(&self) -> bool {
                hit([(self.id, self.val), NO, NO], 0b1, self.id);
                false
            }
        }
        impl One for $T {
            fn one() -> $T {
                <$T as Default>::default()
            }
        }
    };
}
leaf_arith!(Tok);
leaf_arith!(Plain);
