//! Batches of runs on worker threads, replay files, minimisation.

use std::sync::atomic::{AtomicU64, Ordering};
use std::sync::Mutex;

use crate::gen::gen_plan;
use crate::json::{self, J};
use crate::ops::*;
use crate::rng::{fnv_step, FNV_INIT};
use crate::run::{execute, plan_hash, Outcome};
use crate::stats::Stats;
use crate::tok::{class_name, Violation};

pub const CHUNK: u64 = 256;

pub struct Found {
    pub run: u64,
    pub plan: Plan,
    pub outcome: Outcome,
}

pub struct BatchResult {
    pub stats: Stats,
    /// per-chunk fold of the per-run outcome digests, in run-index order
    pub chunk_digests: Vec<u64>,
    pub digest: u64,
    pub first: Option<Found>,
    pub harness_error: Option<(u64, String)>,
    pub distinct_nontrivial: u64,
    pub known_hits: Vec<(usize, u64)>,
}

/// A committed known finding (or a fixed one, which suppresses nothing).
#[derive(Clone, Debug)]
pub struct Known {
    pub status: String,
    pub class: u8,
    pub op: String,
    pub what: String,
}

pub fn matches_known(k: &Known, o: &Outcome) -> bool {
    if k.status != "known" {
        return false;
    }
    match (&o.violation, o.viol_op) {
        (Some(v), Some(op)) => v.class == k.class && op.name() == k.op,
        _ => false,
    }
}

pub struct Bitmap {
    words: Vec<AtomicU64>,
    mask: u64,
}
impl Bitmap {
    pub fn new(bits_log2: u32) -> Bitmap {
        let n = 1usize << (bits_log2 - 6);
        Bitmap { words: (0..n).map(|_| AtomicU64::new(0)).collect(), mask: (1u64 << bits_log2) - 1 }
    }
    #[inline]
    pub fn set(&self, h: u64) {
        let b = h & self.mask;
        self.words[(b >> 6) as usize].fetch_or(1 << (b & 63), Ordering::Relaxed);
    }
    pub fn count(&self) -> u64 {
        self.words.iter().map(|w| w.load(Ordering::Relaxed).count_ones() as u64).sum()
    }
}

/// Per-worker "in flight" marker for crash isolation: the supervisor process reads these
/// after an abnormal death of the batch process to find the runs that were executing.
pub struct Inflight {
    file: std::fs::File,
}
impl Inflight {
    pub fn open(dir: &std::path::Path, worker: usize) -> Option<Inflight> {
        std::fs::OpenOptions::new().create(true).write(true).truncate(true).open(dir.join(format!("w{}", worker))).ok().map(|file| Inflight { file })
    }
    pub fn mark(&self, chunk: u64) {
        use std::os::unix::fs::FileExt;
        let _ = self.file.write_at(format!("{:020}\n", chunk).as_bytes(), 0);
    }
}

pub fn run_batch(seed: u64, start: u64, count: u64, workers: usize, known: &[Known], track_distinct: bool, inflight: Option<&std::path::Path>) -> BatchResult {
    let nchunks = (count + CHUNK - 1) / CHUNK;
    let next = AtomicU64::new(0);
    let min_viol = AtomicU64::new(u64::MAX);
    let bits = if track_distinct { (64 - (count.max(1024) * 16).leading_zeros()).clamp(20, 33) } else { 6 };
    let bitmap = Bitmap::new(bits);
    let results: Mutex<Vec<(Stats, Vec<(u64, u64)>, Option<Found>, Option<(u64, String)>, Vec<(usize, u64)>)>> = Mutex::new(Vec::new());
    std::thread::scope(|sc| {
        for widx in 0..workers.max(1) {
            let (next, min_viol, bitmap, results) = (&next, &min_viol, &bitmap, &results);
            sc.spawn(move || {
                crate::exec::install_panic_hook();
                let marker = inflight.and_then(|d| Inflight::open(d, widx));
                let mut st = Stats::new();
                let mut chunks: Vec<(u64, u64)> = Vec::new();
                let mut found: Option<Found> = None;
                let mut herr: Option<(u64, String)> = None;
                let mut khits: Vec<(usize, u64)> = Vec::new();
                loop {
                    let c = next.fetch_add(1, Ordering::Relaxed);
                    if c >= nchunks {
                        break;
                    }
                    let lo = start + c * CHUNK;
                    let hi = (lo + CHUNK).min(start + count);
                    if let Some(mk) = &marker {
                        mk.mark(c);
                    }
                    if lo > min_viol.load(Ordering::Relaxed) {
                        continue;
                    }
                    let mut d = FNV_INIT;
                    for run in lo..hi {
                        let plan = gen_plan(seed, run);
                        let o = execute(&plan, &mut st, false);
                        d = fnv_step(d, o.digest);
                        if track_distinct && o.nontrivial {
                            bitmap.set(plan_hash(&plan));
                        }
                        if let Some(e) = &o.harness_error {
                            if herr.is_none() {
                                herr = Some((run, e.clone()));
                            }
                        }
                        if o.violation.is_some() {
                            if let Some(ki) = known.iter().position(|k| matches_known(k, &o)) {
                                khits.push((ki, run));
                                continue;
                            }
                            if found.as_ref().map(|f| run < f.run).unwrap_or(true) {
                                min_viol.fetch_min(run, Ordering::Relaxed);
                                found = Some(Found { run, plan, outcome: o });
                            }
                            break;
                        }
                    }
                    chunks.push((c, d));
                }
                if let Some(mk) = &marker {
                    mk.mark(u64::MAX / 2); // idle
                }
                results.lock().unwrap().push((st, chunks, found, herr, khits));
            });
        }
    });
    let mut stats = Stats::new();
    let mut all_chunks: Vec<(u64, u64)> = Vec::new();
    let mut first: Option<Found> = None;
    let mut harness_error: Option<(u64, String)> = None;
    let mut known_hits: Vec<(usize, u64)> = Vec::new();
    for (st, ch, f, he, kh) in results.into_inner().unwrap() {
        stats.merge(&st);
        all_chunks.extend(ch);
        known_hits.extend(kh);
        if let Some(f) = f {
            if first.as_ref().map(|x| f.run < x.run).unwrap_or(true) {
                first = Some(f);
            }
        }
        if let Some(h) = he {
            if harness_error.as_ref().map(|x| h.0 < x.0).unwrap_or(true) {
                harness_error = Some(h);
            }
        }
    }
    all_chunks.sort();
    known_hits.sort();
    let chunk_digests: Vec<u64> = all_chunks.iter().map(|c| c.1).collect();
    let digest = chunk_digests.iter().fold(FNV_INIT, |h, d| fnv_step(h, *d));
    BatchResult { stats, chunk_digests, digest, first, harness_error, distinct_nontrivial: if track_distinct { bitmap.count() } else { 0 }, known_hits }
}

// ------------------------------------------------------------------------------------ replay files

pub fn op_to_json(op: &Op) -> J {
    J::obj(vec![("k", J::s(op.k.name())), ("a", J::i(op.a)), ("b", J::i(op.b)), ("f", J::i(op.f))])
}

pub fn plan_to_json(p: &Plan) -> J {
    J::obj(vec![
        ("container", J::s(kind_name(p.kind))),
        ("class", J::s(if p.faulty { "faulty" } else { "clean" })),
        ("element", J::s(ELEM_NAMES[p.elem as usize % 4])),
        ("values", J::s(if p.uniform { "uniform" } else { "distinct" })),
        ("ops", J::Arr(p.ops.iter().map(op_to_json).collect())),
    ])
}

pub fn plan_from_json(j: &J) -> Result<Plan, String> {
    let kind = kind_from_name(j.get("container").and_then(|x| x.as_str()).ok_or("missing container")?).ok_or("unknown container")?;
    let faulty = j.get("class").and_then(|x| x.as_str()).unwrap_or("clean") == "faulty";
    let mut ops = Vec::new();
    for o in j.get("ops").and_then(|x| x.as_arr()).ok_or("missing ops")? {
        let k = OpK::from_name(o.get("k").and_then(|x| x.as_str()).ok_or("op without k")?).ok_or("unknown op kind")?;
        let g = |n: &str| o.get(n).and_then(|x| x.as_i64()).unwrap_or(0) as u32;
        ops.push(Op { k, a: g("a"), b: g("b"), f: g("f") });
    }
    let elem = match j.get("element").and_then(|x| x.as_str()) {
        Some("Wide16") | Some("Wide256") => 1,
        Some("PlainNoDrop") => 2,
        Some("ZstDrop") => 3,
        _ => 0,
    };
    let uniform = j.get("values").and_then(|x| x.as_str()) == Some("uniform");
    Ok(Plan { kind, faulty, elem, uniform, ops })
}

pub fn violation_to_json(v: &Violation, op: Option<OpK>) -> J {
    J::obj(vec![
        ("class", J::s(class_name(v.class))),
        ("code", J::i(v.class)),
        ("step", if v.step == u32::MAX { J::s("end-of-run") } else { J::i(v.step) }),
        ("op", J::s(op.map(|o| o.name()).unwrap_or("quiescence"))),
        ("detail", J::s(v.detail.clone())),
    ])
}

pub struct ReplayFile {
    pub seed: u64,
    pub run: u64,
    pub plan: Plan,
    pub class: u8,
    pub step: u32,
    pub digest: u64,
}

/// Which build configuration of vek (and of the simulator) this binary is: `./check --replay`
/// picks the binary by this field of the replay file.
pub const BUILD_PROFILE: &str = if cfg!(debug_assertions) { "debug-assertions" } else { "release" };

pub fn write_replay(path: &str, seed: u64, run: u64, plan: &Plan, o: &Outcome, minimised: bool, original_len: usize, tried: u32) -> std::io::Result<()> {
    let v = o.violation.as_ref().expect("replay of a non-violation");
    let mut pairs = vec![("property", J::s("C18")), ("seed", J::i(seed as i64)), ("run", J::i(run as i64))];
    if let J::Obj(p) = plan_to_json(plan) {
        for (k, v) in p {
            match k.as_str() {
                "container" => pairs.push(("container", v)),
                "class" => pairs.push(("class", v)),
                "element" => pairs.push(("element", v)),
                "values" => pairs.push(("values", v)),
                _ => pairs.push(("ops", v)),
            }
        }
    }
    pairs.push(("violation", violation_to_json(v, o.viol_op)));
    pairs.push(("minimised", J::Bool(minimised)));
    pairs.push(("original_len", J::i(original_len as i64)));
    pairs.push(("candidates_tried", J::i(tried)));
    pairs.push(("digest", J::s(format!("{:016x}", o.digest))));
    pairs.push(("build_profile", J::s(BUILD_PROFILE)));
    std::fs::write(path, J::obj(pairs).pretty())
}

pub fn read_replay(path: &str) -> Result<ReplayFile, String> {
    let txt = std::fs::read_to_string(path).map_err(|e| format!("{}: {}", path, e))?;
    let j = json::parse(&txt)?;
    let plan = plan_from_json(&j)?;
    let v = j.get("violation").ok_or("missing violation")?;
    let class = v.get("code").and_then(|x| x.as_i64()).ok_or("missing violation.code")? as u8;
    let step = match v.get("step") {
        Some(J::Int(i)) => *i as u32,
        _ => u32::MAX,
    };
    let digest = u64::from_str_radix(j.get("digest").and_then(|x| x.as_str()).unwrap_or("0"), 16).unwrap_or(0);
    Ok(ReplayFile {
        seed: j.get("seed").and_then(|x| x.as_i64()).unwrap_or(0) as u64,
        run: j.get("run").and_then(|x| x.as_i64()).unwrap_or(0) as u64,
        plan,
        class,
        step,
        digest,
    })
}

// ------------------------------------------------------------------------------------ minimisation

fn same_failure(o: &Outcome, class: u8, op: Option<OpK>) -> bool {
    o.harness_error.is_none() && o.violation.as_ref().map(|v| v.class) == Some(class) && o.viol_op == op
}

fn smaller_kind(k: usize) -> Option<usize> {
    // Vec64 -> Vec32 -> Vec16 -> Vec8 -> Vec4 -> Vec3 -> Vec2; Extent3 -> Extent2; Rgba -> Rgb; Uvw -> Uv; MatN -> MatN-1
    match k {
        6 => Some(5),
        5 => Some(4),
        4 => Some(3),
        3 => Some(2),
        2 => Some(1),
        1 => Some(0),
        8 => Some(7),
        10 => Some(9),
        12 => Some(11),
        14 => Some(13),
        15 => Some(14),
        17 => Some(16),
        18 => Some(17),
        _ => None,
    }
}

/// Delta-debugging over the operation list, fault annotations, arguments and the container
/// family, while the same violation class at the same operation kind persists.
pub fn minimise(plan: &Plan, o: &Outcome, budget: u32) -> (Plan, Outcome, u32) {
    let class = o.violation.as_ref().unwrap().class;
    let vop = o.viol_op;
    let mut scratch = Stats::new();
    let mut pred = |cand: &Plan| -> Option<Outcome> {
        let oc = execute(cand, &mut scratch, false);
        if same_failure(&oc, class, vop) {
            Some(oc)
        } else {
            None
        }
    };
    minimise_with(plan, o, budget, &mut pred)
}

/// The shrinking loop itself, generic in how a candidate is judged (in-process execution, or a
/// child process per candidate when the failure is a crash or a hang).
pub fn minimise_with(plan: &Plan, o: &Outcome, budget: u32, pred: &mut dyn FnMut(&Plan) -> Option<Outcome>) -> (Plan, Outcome, u32) {
    let mut best = plan.clone();
    let mut best_o = o.clone();
    let mut tried = 0u32;
    let mut attempt = |cand: &Plan, tried: &mut u32| -> Option<Outcome> {
        *tried += 1;
        pred(cand)
    };
    // everything after the failing step is irrelevant
    if let Some(v) = &best_o.violation {
        if v.step != u32::MAX && (v.step as usize + 1) < best.ops.len() {
            let mut c = best.clone();
            c.ops.truncate(v.step as usize + 1);
            if let Some(oc) = attempt(&c, &mut tried) {
                best = c;
                best_o = oc;
            }
        }
    }
    let mut progress = true;
    while progress && tried < budget {
        progress = false;
        // 1. remove chunks of operations
        let mut size = (best.ops.len() / 2).max(1);
        while size >= 1 && tried < budget {
            let mut i = 0;
            while i < best.ops.len() && tried < budget {
                let end = (i + size).min(best.ops.len());
                let mut c = best.clone();
                c.ops.drain(i..end);
                if let Some(oc) = attempt(&c, &mut tried) {
                    best = c;
                    best_o = oc;
                    progress = true;
                } else {
                    i += size;
                }
            }
            if size == 1 {
                break;
            }
            size /= 2;
        }
        // 2. smaller container of the same family
        while let Some(k) = smaller_kind(best.kind) {
            if tried >= budget {
                break;
            }
            let mut c = best.clone();
            c.kind = k;
            if let Some(oc) = attempt(&c, &mut tried) {
                best = c;
                best_o = oc;
                progress = true;
            } else {
                break;
            }
        }
        // 2b. a matrix run whose failure happens after the hand-over of `rows`/`cols`: try the
        //     plain vector of the same dimension with the matrix prefix cut off
        if best.kind >= N_VEC_KINDS && tried < budget {
            if let Some(pos) = best.ops.iter().position(|o| o.k == OpK::MTakeLines) {
                let mut c = best.clone();
                c.kind = kind_dim(best.kind) - 2; // Vec2 / Vec3 / Vec4
                c.ops.drain(..=pos);
                c.ops.insert(0, Op::new(OpK::ArrToV));
                if let Some(oc) = attempt(&c, &mut tried) {
                    best = c;
                    best_o = oc;
                    progress = true;
                }
            }
        }
        // 3. simplify each operation: drop the fault, shrink arguments
        for i in 0..best.ops.len() {
            if tried >= budget {
                break;
            }
            let op = best.ops[i];
            let mut cands: Vec<Op> = Vec::new();
            if op.f != 0 {
                cands.push(Op { f: 0, ..op });
                if op.f > 1 {
                    cands.push(Op { f: 1, ..op });
                    cands.push(Op { f: op.f / 2, ..op });
                }
            }
            if op.a != 0 {
                cands.push(Op { a: 0, ..op });
                cands.push(Op { a: op.a / 2, ..op });
                cands.push(Op { a: op.a - 1, ..op });
            }
            if op.b != 0 {
                cands.push(Op { b: 0, ..op });
                cands.push(Op { b: op.b / 2, ..op });
            }
            for cnd in cands {
                if cnd == best.ops[i] {
                    continue;
                }
                let mut c = best.clone();
                c.ops[i] = cnd;
                if let Some(oc) = attempt(&c, &mut tried) {
                    best = c;
                    best_o = oc;
                    progress = true;
                    break;
                }
            }
        }
        // 3a. distinct payload values
        if best.uniform && tried < budget {
            let mut c = best.clone();
            c.uniform = false;
            if let Some(oc) = attempt(&c, &mut tried) {
                best = c;
                best_o = oc;
                progress = true;
            }
        }
        // 3b. the plain element shape
        if best.elem != 0 && tried < budget {
            let mut c = best.clone();
            c.elem = 0;
            if let Some(oc) = attempt(&c, &mut tried) {
                best = c;
                best_o = oc;
                progress = true;
            }
        }
        // 4. the class of the run
        if best.faulty && tried < budget {
            let needs = best.ops.iter().any(|op| op.f != 0 || op.k == OpK::Forget || (matches!(op.k, OpK::Observe | OpK::VObserve | OpK::MObserve) && op.b != 0) || (op.k == OpK::FromIterStub && (op.a % 5 != 0 || op.b >> 8 != 0)));
            if !needs {
                best.faulty = false;
            }
        }
    }
    (best, best_o, tried)
}
