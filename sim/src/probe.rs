//! Capability probes: call a trait method on a consuming iterator **iff** its concrete type
//! happens to implement the trait (today none of these is implemented). A realistic change is
//! adding `Clone`, `PartialOrd`/`Ord` or `AsRef<[T]>` to `IntoIter` (by derive or by hand) in a
//! way that copies or reads slots that were already yielded. Uses autoref specialisation, which
//! only resolves on concrete types, hence the `Any` round trip out of the generic executor.

use std::any::Any;
use std::cmp::Ordering;

use crate::tok::Tok;

pub struct Wrap<'a, T>(pub &'a T);

// ---- Clone ----
pub trait ViaClone<T> {
    fn try_clone_probe(&self) -> Option<T>;
}
impl<'a, T: Clone> ViaClone<T> for Wrap<'a, T> {
    fn try_clone_probe(&self) -> Option<T> {
        Some(self.0.clone())
    }
}
pub trait ViaNone<T> {
    fn try_clone_probe(&self) -> Option<T>;
}
impl<'a, T> ViaNone<T> for &Wrap<'a, T> {
    fn try_clone_probe(&self) -> Option<T> {
        None
    }
}

// ---- PartialOrd (covers Ord as well: Ord requires PartialOrd) ----
pub trait ViaOrd {
    fn try_cmp_probe(&self) -> Option<Option<Ordering>>;
}
impl<'a, T: PartialOrd> ViaOrd for Wrap<'a, T> {
    fn try_cmp_probe(&self) -> Option<Option<Ordering>> {
        Some(self.0.partial_cmp(self.0))
    }
}
pub trait ViaNoOrd {
    fn try_cmp_probe(&self) -> Option<Option<Ordering>>;
}
impl<'a, T> ViaNoOrd for &Wrap<'a, T> {
    fn try_cmp_probe(&self) -> Option<Option<Ordering>> {
        None
    }
}

// ---- AsRef<[Tok]> (a slice view of the remaining elements, like std's vec::IntoIter) ----
pub trait ViaSlice {
    fn try_slice_probe(&self) -> Option<Vec<(u32, u32)>>;
}
impl<'a, T: AsRef<[Tok]>> ViaSlice for Wrap<'a, T> {
    fn try_slice_probe(&self) -> Option<Vec<(u32, u32)>> {
        // plain field reads, no callback
        Some(self.0.as_ref().iter().map(|t| (t.id, t.val)).collect())
    }
}
pub trait ViaNoSlice {
    fn try_slice_probe(&self) -> Option<Vec<(u32, u32)>>;
}
impl<'a, T> ViaNoSlice for &Wrap<'a, T> {
    fn try_slice_probe(&self) -> Option<Vec<(u32, u32)>> {
        None
    }
}

// ---- Borrow<[Tok]>, Deref<Target = [Tok]>, AsMut<[Tok]> ----
pub trait ViaBorrow {
    fn try_borrow_probe(&self) -> Option<Vec<(u32, u32)>>;
}
impl<'a, T: std::borrow::Borrow<[Tok]>> ViaBorrow for Wrap<'a, T> {
    fn try_borrow_probe(&self) -> Option<Vec<(u32, u32)>> {
        Some(self.0.borrow().iter().map(|t| (t.id, t.val)).collect())
    }
}
pub trait ViaNoBorrow {
    fn try_borrow_probe(&self) -> Option<Vec<(u32, u32)>>;
}
impl<'a, T> ViaNoBorrow for &Wrap<'a, T> {
    fn try_borrow_probe(&self) -> Option<Vec<(u32, u32)>> {
        None
    }
}
pub trait ViaDeref {
    fn try_deref_probe(&self) -> Option<Vec<(u32, u32)>>;
}
impl<'a, T: std::ops::Deref<Target = [Tok]>> ViaDeref for Wrap<'a, T> {
    fn try_deref_probe(&self) -> Option<Vec<(u32, u32)>> {
        Some(self.0.deref().iter().map(|t| (t.id, t.val)).collect())
    }
}
pub trait ViaNoDeref {
    fn try_deref_probe(&self) -> Option<Vec<(u32, u32)>>;
}
impl<'a, T> ViaNoDeref for &Wrap<'a, T> {
    fn try_deref_probe(&self) -> Option<Vec<(u32, u32)>> {
        None
    }
}
pub struct WrapMut<'a, T>(pub std::cell::RefCell<&'a mut T>);
pub trait ViaAsMut {
    /// reverses the mutable view in place and returns what it showed before
    fn try_asmut_probe(&self) -> Option<Vec<(u32, u32)>>;
}
impl<'a, T: AsMut<[Tok]>> ViaAsMut for WrapMut<'a, T> {
    fn try_asmut_probe(&self) -> Option<Vec<(u32, u32)>> {
        let mut b = self.0.borrow_mut();
        let s: &mut [Tok] = b.as_mut();
        let before = s.iter().map(|t| (t.id, t.val)).collect();
        s.reverse();
        Some(before)
    }
}
pub trait ViaNoAsMut {
    fn try_asmut_probe(&self) -> Option<Vec<(u32, u32)>>;
}
impl<'a, T> ViaNoAsMut for &WrapMut<'a, T> {
    fn try_asmut_probe(&self) -> Option<Vec<(u32, u32)>> {
        None
    }
}

// ---- Default ----
pub struct WrapTy<T>(pub std::marker::PhantomData<T>);
pub trait ViaDefault<T> {
    fn try_default_probe(&self) -> Option<T>;
}
impl<T: Default> ViaDefault<T> for WrapTy<T> {
    fn try_default_probe(&self) -> Option<T> {
        Some(T::default())
    }
}
pub trait ViaNoDefault<T> {
    fn try_default_probe(&self) -> Option<T>;
}
impl<T> ViaNoDefault<T> for &WrapTy<T> {
    fn try_default_probe(&self) -> Option<T> {
        None
    }
}

type II<V> = <V as IntoIterator>::IntoIter;
use vek::vec::repr_c::*;

macro_rules! for_iter_types {
    ($it:ident, $c:ident => $body:expr; $($T:ty,)+) => {
        $(
            if let Some($c) = ($it as &dyn Any).downcast_ref::<$T>() {
                return $body;
            }
        )+
    };
}

macro_rules! all_iter_types {
    ($it:ident, $c:ident => $body:expr) => {
        for_iter_types!($it, $c => $body;
            II<Vec2<Tok>>, II<Vec3<Tok>>, II<Vec4<Tok>>, II<Vec8<Tok>>, II<Vec16<Tok>>, II<Vec32<Tok>>, II<Vec64<Tok>>,
            II<Extent2<Tok>>, II<Extent3<Tok>>, II<Rgb<Tok>>, II<Rgba<Tok>>, II<Uv<Tok>>, II<Uvw<Tok>>,
            II<Vec2<Vec2<Tok>>>, II<Vec3<Vec3<Tok>>>, II<Vec4<Vec4<Tok>>>,
        );
    };
}

pub fn try_clone_iter<I: 'static>(it: &I) -> Option<I> {
    macro_rules! probe_types {
        ($($T:ty,)+) => {
            $(
                if let Some(c) = (it as &dyn Any).downcast_ref::<$T>() {
                    let r: Option<$T> = (&Wrap(c)).try_clone_probe();
                    return r.map(|c| {
                        let b: Box<dyn Any> = Box::new(c);
                        *b.downcast::<I>().ok().expect("probe: type round trip")
                    });
                }
            )+
        };
    }
    probe_types!(
        II<Vec2<Tok>>, II<Vec3<Tok>>, II<Vec4<Tok>>, II<Vec8<Tok>>, II<Vec16<Tok>>, II<Vec32<Tok>>, II<Vec64<Tok>>,
        II<Extent2<Tok>>, II<Extent3<Tok>>, II<Rgb<Tok>>, II<Rgba<Tok>>, II<Uv<Tok>>, II<Uvw<Tok>>,
        II<Vec2<Vec2<Tok>>>, II<Vec3<Vec3<Tok>>>, II<Vec4<Vec4<Tok>>>,
    );
    None
}

/// `it.partial_cmp(it)` iff the iterator type is `PartialOrd`. Outer `None` = not implemented.
pub fn try_cmp_iter<I: 'static>(it: &I) -> Option<Option<Ordering>> {
    all_iter_types!(it, c => (&Wrap(c)).try_cmp_probe());
    None
}

/// `it.as_ref()` as `&[Tok]` iff the iterator type is `AsRef<[Tok]>`: the (id, val) pairs it shows.
/// (Only for element type `Tok`; an iterator over row vectors is not probed.)
pub fn try_slice_iter<I: 'static>(it: &I) -> Option<Vec<(u32, u32)>> {
    for_iter_types!(it, c => (&Wrap(c)).try_slice_probe();
        II<Vec2<Tok>>, II<Vec3<Tok>>, II<Vec4<Tok>>, II<Vec8<Tok>>, II<Vec16<Tok>>, II<Vec32<Tok>>, II<Vec64<Tok>>,
        II<Extent2<Tok>>, II<Extent3<Tok>>, II<Rgb<Tok>>, II<Rgba<Tok>>, II<Uv<Tok>>, II<Uvw<Tok>>,
    );
    None
}

/// `I::default()` iff the iterator type is `Default` (for element types `Tok` and row vectors).
pub fn try_default_iter<I: 'static>() -> Option<I> {
    macro_rules! probe_types {
        ($($T:ty,)+) => {
            $(
                if std::any::TypeId::of::<I>() == std::any::TypeId::of::<$T>() {
                    let r: Option<$T> = (&WrapTy::<$T>(std::marker::PhantomData)).try_default_probe();
                    return r.map(|c| {
                        let b: Box<dyn Any> = Box::new(c);
                        *b.downcast::<I>().ok().expect("probe: type round trip")
                    });
                }
            )+
        };
    }
    probe_types!(
        II<Vec2<Tok>>, II<Vec3<Tok>>, II<Vec4<Tok>>, II<Vec8<Tok>>, II<Vec16<Tok>>, II<Vec32<Tok>>, II<Vec64<Tok>>,
        II<Extent2<Tok>>, II<Extent3<Tok>>, II<Rgb<Tok>>, II<Rgba<Tok>>, II<Uv<Tok>>, II<Uvw<Tok>>,
        II<Vec2<Vec2<Tok>>>, II<Vec3<Vec3<Tok>>>, II<Vec4<Vec4<Tok>>>,
    );
    None
}

macro_rules! tok_iter_types {
    ($it:ident, $c:ident => $body:expr) => {
        for_iter_types!($it, $c => $body;
            II<Vec2<Tok>>, II<Vec3<Tok>>, II<Vec4<Tok>>, II<Vec8<Tok>>, II<Vec16<Tok>>, II<Vec32<Tok>>, II<Vec64<Tok>>,
            II<Extent2<Tok>>, II<Extent3<Tok>>, II<Rgb<Tok>>, II<Rgba<Tok>>, II<Uv<Tok>>, II<Uvw<Tok>>,
        );
    };
}
/// The remaining elements as shown by `Borrow<[Tok]>` (route 1) or `Deref<Target = [Tok]>` (route 2).
pub fn try_view_iter<I: 'static>(it: &I, route: u32) -> Option<Vec<(u32, u32)>> {
    if route == 1 {
        tok_iter_types!(it, c => (&Wrap(c)).try_borrow_probe());
    } else {
        tok_iter_types!(it, c => (&Wrap(c)).try_deref_probe());
    }
    None
}
/// `it.as_mut()` as `&mut [Tok]` iff `AsMut<[Tok]>`: reverses the view in place, returns what it showed.
pub fn try_asmut_iter<I: 'static>(it: &mut I) -> Option<Vec<(u32, u32)>> {
    macro_rules! probe_types {
        ($($T:ty,)+) => {
            $(
                if let Some(c) = (it as &mut dyn Any).downcast_mut::<$T>() {
                    return (&WrapMut(std::cell::RefCell::new(c))).try_asmut_probe();
                }
            )+
        };
    }
    probe_types!(
        II<Vec2<Tok>>, II<Vec3<Tok>>, II<Vec4<Tok>>, II<Vec8<Tok>>, II<Vec16<Tok>>, II<Vec32<Tok>>, II<Vec64<Tok>>,
        II<Extent2<Tok>>, II<Extent3<Tok>>, II<Rgb<Tok>>, II<Rgba<Tok>>, II<Uv<Tok>>, II<Uvw<Tok>>,
    );
    None
}
