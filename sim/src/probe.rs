//! Capability probe: call `clone()` on a consuming iterator **iff** its concrete type happens
//! to implement `Clone` (today none does). Uses autoref specialisation, which only resolves on
//! concrete types, hence the `Any` round trip out of the generic executor.

use std::any::Any;

use crate::tok::Tok;

pub struct Wrap<'a, T>(pub &'a T);
pub trait ViaClone<T> {
    fn try_clone_probe(&self) -> Option<T>;
}
impl<'a, T: Clone> ViaClone<T> for Wrap<'a, T> {
    fn try_clone_probe(&self) -> Option<T> {
        Some(self.0.clone())
    }
}
pub trait ViaNone<T> {
    fn try_clone_probe(&self) -> Option<T>;
}
impl<'a, T> ViaNone<T> for &Wrap<'a, T> {
    fn try_clone_probe(&self) -> Option<T> {
        None
    }
}

macro_rules! probe_types {
    ($it:ident, $I:ty; $($T:ty,)+) => {
        $(
            if let Some(c) = ($it as &dyn Any).downcast_ref::<$T>() {
                let r: Option<$T> = (&Wrap(c)).try_clone_probe();
                return r.map(|c| {
                    let b: Box<dyn Any> = Box::new(c);
                    *b.downcast::<$I>().ok().expect("probe: type round trip")
                });
            }
        )+
    };
}

type II<V> = <V as IntoIterator>::IntoIter;
use vek::vec::repr_c::*;

pub fn try_clone_iter<I: 'static>(it: &I) -> Option<I> {
    probe_types!(it, I;
        II<Vec2<Tok>>, II<Vec3<Tok>>, II<Vec4<Tok>>, II<Vec8<Tok>>, II<Vec16<Tok>>, II<Vec32<Tok>>, II<Vec64<Tok>>,
        II<Extent2<Tok>>, II<Extent3<Tok>>, II<Rgb<Tok>>, II<Rgba<Tok>>, II<Uv<Tok>>, II<Uvw<Tok>>,
        II<Vec2<Vec2<Tok>>>, II<Vec3<Vec3<Tok>>>, II<Vec4<Vec4<Tok>>>,
    );
    None
}
