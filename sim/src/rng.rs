//! The only source of choices in the simulator: a splitmix64 stream.
//! Run `r` of seed `s` uses `Rng::for_run(s, r)`; nothing else is ever drawn from.

#[derive(Clone)]
pub struct Rng(u64);

#[inline]
fn mix(mut z: u64) -> u64 {
    z = (z ^ (z >> 30)).wrapping_mul(0xBF58_476D_1CE4_E5B9);
    z = (z ^ (z >> 27)).wrapping_mul(0x94D0_49BB_1331_11EB);
    z ^ (z >> 31)
}

impl Rng {
    pub fn new(seed: u64) -> Self {
        Rng(seed)
    }
    /// Independent stream for run index `run` of seed `seed`.
    pub fn for_run(seed: u64, run: u64) -> Self {
        let a = mix(seed.wrapping_add(0x9E37_79B9_7F4A_7C15));
        let b = mix(run.wrapping_mul(0xD6E8_FEB8_6659_FD93).wrapping_add(0x2545_F491_4F6C_DD1D));
        Rng(mix(a ^ b.rotate_left(17)))
    }
    #[inline]
    pub fn next_u64(&mut self) -> u64 {
        self.0 = self.0.wrapping_add(0x9E37_79B9_7F4A_7C15);
        mix(self.0)
    }
    /// Uniform in 0..n (n > 0). Modulo bias is irrelevant for a search heuristic.
    #[inline]
    pub fn below(&mut self, n: u32) -> u32 {
        debug_assert!(n > 0);
        ((self.next_u64() >> 32) as u32) % n
    }
    #[inline]
    pub fn range(&mut self, lo: u32, hi_incl: u32) -> u32 {
        lo + self.below(hi_incl - lo + 1)
    }
    /// True with probability num/den.
    #[inline]
    pub fn chance(&mut self, num: u32, den: u32) -> bool {
        self.below(den) < num
    }
    /// Index into a weight table.
    pub fn weighted(&mut self, w: &[u32]) -> usize {
        let total: u32 = w.iter().sum();
        debug_assert!(total > 0);
        let mut x = self.below(total);
        for (i, &wi) in w.iter().enumerate() {
            if x < wi {
                return i;
            }
            x -= wi;
        }
        w.len() - 1
    }
}

/// 64-bit FNV-1a step, used for event digests and for the stub `Hasher`.
#[inline]
pub fn fnv_step(h: u64, x: u64) -> u64 {
    let mut h = h;
    let mut x = x;
    for _ in 0..8 {
        h ^= x & 0xff;
        h = h.wrapping_mul(0x0000_0100_0000_01B3);
        x >>= 8;
    }
    h
}
pub const FNV_INIT: u64 = 0xCBF2_9CE4_8422_2325;
