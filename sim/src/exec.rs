//! The executor for vector-shaped values: interprets an operation list against the real vek
//! code, the reference model (oracle 2) and the ledger (oracle 1), checking the
//! cross-invariants after every step.

use std::any::Any;
use std::collections::VecDeque;
use std::fmt;
use std::hash::{Hash, Hasher};
use std::marker::PhantomData;
use std::panic::{catch_unwind, AssertUnwindSafe};

use crate::adapters::*;
use crate::ops::*;
use crate::stats::*;
use crate::tok::{self, m, Cb, Injected, St, Tok, *};

thread_local! {
    /// fault kind F8: (the write at which the formatter sink fails, writes so far, fired)
    static SINK_FAIL: std::cell::Cell<(usize, usize, bool)> = std::cell::Cell::new((0, 0, false));
}
/// Arm (k > 0) or disarm (k = 0) the failing sink for the next observe operation.
pub fn set_sink_fail(k: u32) {
    SINK_FAIL.with(|c| c.set((k as usize, 0, false)));
}
/// Whether the armed sink failure happened; disarms.
pub fn take_sink_fired() -> bool {
    SINK_FAIL.with(|c| {
        let f = c.get().2;
        c.set((0, 0, false));
        f
    })
}

/// The sink every `Debug` / `Display` observation writes into. Normally it swallows everything;
/// with fault kind F8 armed its k-th write returns `Err`, which drives the `?` early-return paths
/// of the formatting code under test.
pub struct NullWriter(pub usize);
impl fmt::Write for NullWriter {
    fn write_str(&mut self, s: &str) -> fmt::Result {
        self.0 += s.len();
        let fail = SINK_FAIL.with(|c| {
            let (at, n, fired) = c.get();
            if at == 0 {
                return false;
            }
            let n = n + 1;
            let hit = n == at;
            c.set((at, n, fired || hit));
            hit
        });
        if fail {
            tok::note(EV_INJECT, 8000);
            return Err(fmt::Error);
        }
        Ok(())
    }
}

pub enum Thrown {
    Injected,
    Genuine(String),
}

thread_local! {
    pub static LAST_PANIC: std::cell::RefCell<String> = std::cell::RefCell::new(String::new());
}

/// Installed once per process: injected panics are silent, genuine ones are remembered (with
/// their location) so they can be reported as V10 or as a harness error.
pub fn install_panic_hook() {
    std::panic::set_hook(Box::new(|info| {
        if info.payload().downcast_ref::<Injected>().is_some() {
            return;
        }
        let msg = if let Some(s) = info.payload().downcast_ref::<&str>() {
            s.to_string()
        } else if let Some(s) = info.payload().downcast_ref::<String>() {
            s.clone()
        } else {
            "non-string panic payload".to_string()
        };
        let loc = info.location().map(|l| format!("{}:{}", l.file(), l.line())).unwrap_or_default();
        LAST_PANIC.with(|p| *p.borrow_mut() = format!("{} at {}", msg, loc));
    }));
}

fn thrown_from(p: Box<dyn Any + Send>) -> Thrown {
    if p.downcast_ref::<Injected>().is_some() {
        Thrown::Injected
    } else {
        Thrown::Genuine(LAST_PANIC.with(|p| p.borrow().clone()))
    }
}

/// Run one piece of real code inside an operation bracket.
pub fn guard<R>(allow_drop: u16, allow_touch: u16, plan: Option<(Cb, u32)>, f: impl FnOnce() -> R) -> (Result<R, Thrown>, bool) {
    tok::begin_op(allow_drop, allow_touch, plan);
    let r = catch_unwind(AssertUnwindSafe(f));
    let fired = tok::end_op();
    (r.map_err(thrown_from), fired)
}

/// Like `guard` for code that must not unwind at all: a panic is V10.
pub fn guard_nopanic<R>(what: &str, allow_drop: u16, allow_touch: u16, f: impl FnOnce() -> R) -> Option<R> {
    match guard(allow_drop, allow_touch, None, f).0 {
        Ok(r) => Some(r),
        Err(Thrown::Injected) => {
            tok::raise(V10_UNEXPECTED_PANIC, format!("{}: injected panic escaped although none was planned (harness)", what));
            None
        }
        Err(Thrown::Genuine(msg)) => {
            tok::raise(V10_UNEXPECTED_PANIC, format!("{} panicked: {}", what, msg));
            None
        }
    }
}

fn plan_of(cb: Cb, f: u32) -> Option<(Cb, u32)> {
    if f > 0 {
        Some((cb, f))
    } else {
        None
    }
}

/// Stub source iterator for `from_iter` (fault kind F5). Elements it has not handed out when
/// it is dropped go back to the harness (`sink`) instead of being destroyed, so that the
/// ledger can tell "dropped by vek" from "never pulled".
pub struct StubSource<'a, X: Item> {
    buf: VecDeque<X>,
    sink: &'a mut Vec<X>,
    pulled: &'a mut Vec<Grp>,
    eof_after: usize,
    panic_at: usize, // 1-based; 0 = never
    hint: u8,
    cap: usize,
    calls: usize,
    /// a source that is not fused: it returns `None` once after `gap_at` elements and would go on
    /// yielding afterwards; its sequence ends at that first `None`
    gap_at: Option<usize>,
    gap_done: bool,
    polled_after_end: &'a mut usize,
    /// fault kind F10: `size_hint()` unwinds (first call) / the source's own `Drop` unwinds
    hint_panic: bool,
    drop_panic: bool,
    extra_fired: &'a mut bool,
}
impl<'a, X: Item> Iterator for StubSource<'a, X> {
    type Item = X;
    fn next(&mut self) -> Option<X> {
        self.calls += 1;
        if self.panic_at != 0 && self.calls == self.panic_at && !std::thread::panicking() {
            tok::note(EV_INJECT, 5000 + self.calls as u64);
            std::panic::panic_any(Injected);
        }
        if self.pulled.len() >= self.eof_after {
            return None;
        }
        if self.gap_done {
            *self.polled_after_end += 1;
        } else if self.gap_at == Some(self.pulled.len()) {
            self.gap_done = true;
            return None;
        }
        let x = self.buf.pop_front()?;
        let g = x.grp();
        // within capacity: expected to end up in the vector; beyond: from_iter must drop it
        g.set_owner(if self.pulled.len() < self.cap { OWN_MAIN } else { OWN_DOOMED });
        self.pulled.push(g);
        Some(x)
    }
    fn size_hint(&self) -> (usize, Option<usize>) {
        if self.hint_panic && !std::thread::panicking() {
            tok::note(EV_INJECT, 5900);
            // (a shared flag cannot be set through &self; the caller learns it from the unwinding)
            std::panic::panic_any(Injected);
        }
        let rem = self.buf.len().min(self.eof_after.saturating_sub(self.pulled.len()));
        match self.hint {
            0 => (rem, Some(rem)),
            1 => (0, Some(0)),
            2 => (usize::MAX, None),
            _ => (rem * 2 + 1, Some(rem * 2 + 1)),
        }
    }
}
impl<'a, X: Item> Drop for StubSource<'a, X> {
    fn drop(&mut self) {
        while let Some(x) = self.buf.pop_front() {
            self.sink.push(x);
        }
        if self.drop_panic && !std::thread::panicking() {
            *self.extra_fired = true;
            tok::note(EV_INJECT, 5901);
            std::panic::panic_any(Injected);
        }
    }
}

/// Records what a user callback of a std adaptor is shown, and panics at the planned call
/// (fault kind F7: closure panic).
pub struct Watch {
    pub order: Vec<Grp>,
    pub calls: usize,
    pub panic_at: usize,
    pub fired: bool,
}
impl Watch {
    pub fn new(panic_at: u32) -> Watch {
        Watch { order: Vec::new(), calls: 0, panic_at: panic_at as usize, fired: false }
    }
    /// Returns the 0-based index of this call.
    pub fn hit(&mut self, g: Grp) -> usize {
        if tok::should_abandon() {
            // a violation was already recorded: do not keep a broken iterator running
            std::panic::panic_any(Injected);
        }
        self.calls += 1;
        self.order.push(g);
        if self.order.len() > 80 {
            tok::raise(V6_LENGTH, "a callback was invoked more than 80 times: the iterator does not end".to_string());
            std::panic::panic_any(Injected);
        }
        if self.panic_at != 0 && self.calls == self.panic_at && !std::thread::panicking() {
            self.fired = true;
            tok::note(EV_INJECT, 7000 + self.calls as u64);
            std::panic::panic_any(Injected);
        }
        self.calls - 1
    }
}

pub enum Form<K: Kind<X>, X: Item> {
    Arr(K::Arr),
    Tup(K::Tup),
    V(K::V),
    It(K::It),
    Gone,
}

pub struct VecExec<'s, K: Kind<X>, X: Item> {
    pub form: Form<K, X>,
    /// declaration-order ids while in Arr / Tup / V form
    pub model: Vec<Grp>,
    /// remaining ids while in It form
    pub dq: VecDeque<Grp>,
    pub bag: Vec<X>,
    pub twin: Option<(K::It, VecDeque<Grp>, usize, usize)>,
    pub leftovers: Vec<X>,
    pub inner: Option<(X::Inner, VecDeque<u32>)>,
    pub front: usize,
    pub back: usize,
    pub slot: usize,
    pub chain: u32,
    pub bagdrop_since_pull: bool,
    pub after_obs_panic: bool,
    pub after_partial_take: bool,
    pub after_nth_panic: bool,
    pub after_adapt_panic: bool,
    pub uniform: bool,
    pub st: &'s mut Stats,
    _k: PhantomData<K>,
}

fn is_default_live_fresh(g: &Grp) -> bool {
    g.iter().all(|id| {
        tok::origin_of(id) == Some(Origin::Default) && tok::state_of(id) == Some(St::Live) && tok::owner_of(id) == OWN_FRESH
    })
}

/// What the run loop needs from an executor (implemented per concrete vector type below).
pub trait Stepper<K: Kind<X>, X: Item> {
    fn start_fresh_arr(&mut self);
    fn start_from_v(&mut self, v: K::V, model: Vec<Grp>);
    fn step(&mut self, op: Op) -> bool;
    fn finish(&mut self);
}

impl<'s, K: Kind<X>, X: Item> VecExec<'s, K, X> {
    pub fn new(slot: usize, st: &'s mut Stats) -> Self {
        VecExec {
            form: Form::Gone,
            model: Vec::new(),
            dq: VecDeque::new(),
            bag: Vec::new(),
            twin: None,
            leftovers: Vec::new(),
            inner: None,
            front: 0,
            back: 0,
            slot,
            chain: 0,
            bagdrop_since_pull: false,
            after_obs_panic: false,
            after_partial_take: false,
            after_nth_panic: false,
            after_adapt_panic: false,
            uniform: false,
            st,
            _k: PhantomData,
        }
    }

    pub fn fresh_items(owner: u8) -> (Vec<X>, Vec<Grp>) {
        Self::fresh_items_u(owner, false)
    }
    pub fn fresh_items_u(owner: u8, uniform: bool) -> (Vec<X>, Vec<Grp>) {
        let items: Vec<X> = (0..K::N as u32).map(|p| X::fresh(if uniform { 0 } else { p }, owner)).collect();
        let grps = items.iter().map(|x| x.grp()).collect();
        (items, grps)
    }

}

/// Everything that calls into vek is instantiated once per *concrete* vector type (X stays
/// generic): inside these impls the consuming iterator is the concrete `vecN::IntoIter<X>`, so a
/// method call like `it.rev()` or `it.len()` resolves exactly as it does in user code — including
/// to an inherent method that shadows the trait method of the same name (seeded change S34).
macro_rules! vec_exec_impl {
    ($K:ty) => {
impl<'s, X: Item> VecExec<'s, $K, X> {
    pub fn start_fresh_arr(&mut self) {
        let (items, grps) = Self::fresh_items_u(OWN_MAIN, self.uniform);
        self.st.elements_created += (<$K as Kind<X>>::N * X::W) as u64;
        self.model = grps;
        self.form = Form::Arr(<$K as Kind<X>>::arr_from_vec(items));
    }

    /// Start from an already built vector value (used by the matrix executor for `rows`/`cols`).
    pub fn start_from_v(&mut self, v: <$K as Kind<X>>::V, model: Vec<Grp>) {
        self.model = model;
        self.form = Form::V(v);
        self.check_form("handover");
    }

    fn cur_state(&self) -> (usize, usize) {
        (self.front, <$K as Kind<X>>::N - self.back)
    }

    // ---------------------------------------------------------------- read-back checks

    /// Compare the current Arr / Tup / V content, read through plain field access, with the model (V5).
    fn check_form(&mut self, after: &str) {
        let n = <$K as Kind<X>>::N;
        if self.model.len() != n {
            if !matches!(self.form, Form::It(_) | Form::Gone) {
                tok::raise(V5_ORDER, format!("harness: model length {} for {}", self.model.len(), <$K as Kind<X>>::NAME));
            }
            return;
        }
        for i in 0..n {
            let got = match &self.form {
                Form::Arr(a) => <$K as Kind<X>>::arr_get(a, i).grp(),
                Form::Tup(t) => <$K as Kind<X>>::tup_get(t, i).grp(),
                Form::V(v) => <$K as Kind<X>>::v_field(v, i).grp(),
                _ => return,
            };
            if got != self.model[i] {
                tok::raise(
                    V5_ORDER,
                    format!("after {}: position {} of {} holds ids {:?}, model says {:?}", after, i, <$K as Kind<X>>::NAME, &got.ids[..got.n as usize], &self.model[i].ids[..self.model[i].n as usize]),
                );
                return;
            }
        }
    }

    fn check_len(&mut self, after: &str) {
        let want = self.dq.len();
        if let Form::It(it) = &self.form {
            if let Some((l, sh)) = guard_nopanic("len/size_hint", 0, 0, || (it.len(), it.size_hint())) {
                if l != want || sh != (want, Some(want)) {
                    tok::raise(V6_LENGTH, format!("after {}: len() = {}, size_hint() = {:?}, but {} elements remain", after, l, sh, want));
                }
            }
        }
    }

    fn all_dropped(&self, ids: impl Iterator<Item = u32>) -> Option<u32> {
        for id in ids {
            if !tok::gone(id) {
                return Some(id);
            }
        }
        None
    }

    /// After a (possibly interrupted) destroying operation over `grps`: in the clean case all
    /// must be gone (else V7); if the planned drop-panic fired, the survivors are abandoned
    /// (`MayLeak`): exempt from the leak check only.
    fn settle_doomed(&mut self, grps: &[Grp], fired: bool, what: &str) {
        for g in grps {
            for id in g.iter() {
                match if tok::gone(id) { Some(St::Dropped) } else { tok::state_of(id) } {
                    Some(St::Dropped) => {}
                    Some(St::Live) => {
                        if fired {
                            tok::set_state(id, St::MayLeak);
                        } else {
                            tok::raise(V7_LEAK, format!("{}: id {} was neither yielded nor dropped", what, id));
                            return;
                        }
                    }
                    _ => {}
                }
            }
        }
    }

    /// After an operation on `it.by_ref()` that was planned to pop `doomed` (listed in pop order,
    /// from the back if `back`) but was cut short by an injected panic: ask the iterator how many
    /// elements it still holds and reconcile model, ledger and implementation.
    ///
    /// * `gone` = how many of the planned elements the harness *knows* have left the iterator
    ///   (they were handed to a callback, or destroyed): the iterator must not count them any more;
    /// * an element that left the iterator must be destroyed or held by the harness; when the
    ///   unwinding came out of an element destructor (`leak_ok`, rule R-unwind) a popped element that
    ///   nobody destroyed is abandoned (`MayLeak`) instead of being a leak;
    /// * an element the iterator still counts must be alive and is put back into the model.
    /// Returns false when a violation was raised.
    fn reconcile_interrupted(&mut self, doomed: &[Grp], back: bool, len_before: usize, gone: usize, leak_ok: bool, what: &str) -> bool {
        let newlen = match &self.form {
            Form::It(it) => match guard_nopanic("len", 0, 0, || it.len()) {
                Some(l) => l,
                None => return false,
            },
            _ => return false,
        };
        if newlen > len_before || len_before - newlen > doomed.len() {
            tok::raise(V6_LENGTH, format!("{} interrupted: len() went from {} to {} although at most {} elements were to be consumed", what, len_before, newlen, doomed.len()));
            return false;
        }
        let popped = len_before - newlen;
        if popped < gone {
            tok::raise(V6_LENGTH, format!("{} interrupted: {} elements had already left the iterator, but len() fell only from {} to {}", what, gone, len_before, newlen));
            return false;
        }
        for (idx, g) in doomed.iter().enumerate() {
            if idx < popped {
                for id in g.iter() {
                    let bagged = tok::state_of(id) == Some(St::Live) && tok::owner_of(id) == OWN_BAG;
                    match if !bagged && tok::gone(id) { Some(St::Dropped) } else { tok::state_of(id) } {
                        Some(St::Dropped) => {}
                        Some(St::Live) if tok::owner_of(id) == OWN_BAG => {}
                        Some(St::Live) => {
                            if leak_ok {
                                tok::set_state(id, St::MayLeak);
                            } else {
                                tok::raise(V7_LEAK, format!("{} interrupted: id {} left the iterator and was neither handed over nor dropped", what, id));
                                return false;
                            }
                        }
                        _ => {}
                    }
                }
            } else {
                for id in g.iter() {
                    if tok::state_of(id) != Some(St::Live) {
                        tok::raise(V6_LENGTH, format!("{} interrupted: the iterator still counts id {} which was already destroyed", what, id));
                        return false;
                    }
                }
                g.set_owner(OWN_MAIN);
            }
        }
        for g in doomed[popped..].iter().rev() {
            if back {
                self.dq.push_back(*g);
            } else {
                self.dq.push_front(*g);
            }
        }
        if back {
            self.back += popped;
        } else {
            self.front += popped;
        }
        true
    }

    fn drop_bag_item(x: X) {
        let _ = guard_nopanic("caller drops a yielded element", m(OWN_BAG), 0, move || drop(x));
    }

    fn take_yield(&mut self, got: Option<X>, exp: Option<Grp>, keep: bool, what: &str) {
        match (got, exp) {
            (Some(x), Some(g)) => {
                let gg = x.grp();
                if gg != g {
                    tok::raise(V5_ORDER, format!("{} yielded ids {:?}, model says {:?}", what, &gg.ids[..gg.n as usize], &g.ids[..g.n as usize]));
                    std::mem::forget(x);
                    return;
                }
                g.set_owner(OWN_BAG);
                if keep {
                    self.bag.push(x);
                } else {
                    Self::drop_bag_item(x);
                }
            }
            (Some(x), None) => {
                tok::raise(V6_LENGTH, format!("{} yielded an element although none remains", what));
                std::mem::forget(x);
            }
            (None, Some(g)) => {
                tok::raise(V6_LENGTH, format!("{} returned None although ids {:?} remain", what, &g.ids[..g.n as usize]));
            }
            (None, None) => {
                self.st.probes[P_NEXT_AFTER_EXHAUSTION] += 1;
            }
        }
    }

    /// `reduce_min` / `reduce_max` / `reduce_partial_min` / `reduce_partial_max` (which 0..4) and
    /// `V::min` / `max` / `partial_min` / `partial_max` (which 4..8) with elements that are not Copy: the
    /// losers of every comparison are destroyed. Which element wins is C02's business; here: the result
    /// consists of operands that are alive, every other operand is destroyed exactly once. Faults: a
    /// comparison unwinds (op.f < 1000, R-unwind b: nothing leaks), or the destructor of a loser
    /// unwinds (op.f >= 1000, R-unwind a: pending elements may be abandoned, nothing is destroyed twice).
    fn arith_ord(&mut self, v: <$K as Kind<X>>::V, which: u32, op: Op, ro: RefOps<<$K as Kind<X>>::V, X>) -> bool {
        let n = <$K as Kind<X>>::N;
        self.st.probes[P_ARITH] += 1;
        self.st.probes[P_ARITH_ORD] += 1;
        let what = ["v.reduce_min()", "v.reduce_max()", "v.reduce_partial_min()", "v.reduce_partial_max()", "V::min(v, w)", "V::max(v, w)", "V::partial_min(v, w)", "V::partial_max(v, w)"][which as usize % 8];
        let mine: Vec<Grp> = self.model.drain(..).collect();
        let (w, wg) = if which >= 4 {
            let (items, grps) = Self::fresh_items_u(OWN_DOOMED, self.uniform);
            self.st.elements_created += (n * X::W) as u64;
            (Some(<$K as Kind<X>>::v_from_arr(<$K as Kind<X>>::arr_from_vec(items))), grps)
        } else {
            (None, Vec::new())
        };
        for g in mine.iter() {
            g.set_owner(OWN_DOOMED);
        }
        let all: Vec<Grp> = mine.iter().chain(wg.iter()).copied().collect();
        let drop_panic = op.f >= 1000;
        let plan = if op.f == 0 {
            None
        } else if drop_panic {
            self.st.fault_cfg[F_DROP_PANIC] += 1;
            Some((Cb::Drop, op.f - 1000 + 1))
        } else {
            self.st.fault_cfg[F_OBSERVE_PANIC] += 1;
            Some((Cb::Observe, op.f))
        };
        enum R<V, X> {
            X(X),
            V(V),
        }
        let (r, fired) = guard(m(OWN_DOOMED), m(OWN_DOOMED), plan, move || {
            if which < 4 {
                R::X((ro.reduce_ord[which as usize])(v))
            } else {
                R::V((ro.pick_ord[which as usize - 4])(v, w.unwrap()))
            }
        });
        if fired {
            if drop_panic {
                self.st.fault_fired[F_DROP_PANIC] += 1;
                self.st.probes[P_DROP_PANIC_FIRED] += 1;
            } else {
                self.st.fault_fired[F_OBSERVE_PANIC] += 1;
                self.st.probes[P_OBS_PANIC_FIRED] += 1;
            }
        }
        if tok::has_violation() {
            match r {
                Ok(R::X(x)) => std::mem::forget(x),
                Ok(R::V(x)) => std::mem::forget(x),
                _ => {}
            }
            return true;
        }
        match r {
            Ok(R::X(x)) => {
                let g = x.grp();
                if !mine.contains(&g) || g.iter().any(|id| tok::state_of(id) != Some(St::Live)) {
                    tok::raise(V5_ORDER, format!("{} on a {}: the result (ids {:?}) is not one of the vector's live elements", what, <$K as Kind<X>>::NAME, &g.ids[..g.n as usize]));
                    std::mem::forget(x);
                    return true;
                }
                let _ = guard_nopanic("drop of the chosen element", m(OWN_DOOMED), 0, move || drop(x));
                self.settle_doomed(&all, false, what);
            }
            Ok(R::V(res)) => {
                let mut newmodel: Vec<Grp> = Vec::with_capacity(n);
                for i in 0..n {
                    let g = <$K as Kind<X>>::v_field(&res, i).grp();
                    if (g != mine[i] && g != wg[i]) || g.iter().any(|id| tok::state_of(id) != Some(St::Live)) {
                        tok::raise(V5_ORDER, format!("{} on a {}: position {} holds ids {:?}, which is neither operand's live element of that lane", what, <$K as Kind<X>>::NAME, i, &g.ids[..g.n as usize]));
                        std::mem::forget(res);
                        return true;
                    }
                    newmodel.push(g);
                }
                for g in newmodel.iter() {
                    g.set_owner(OWN_MAIN);
                }
                let losers: Vec<Grp> = all.iter().copied().filter(|g| !newmodel.contains(g)).collect();
                self.model = newmodel;
                self.form = Form::V(res);
                self.settle_doomed(&losers, false, what);
            }
            Err(Thrown::Injected) if fired => {
                // a comparison unwound: everything is destroyed exactly once; a loser's destructor unwound:
                // what was still pending may be abandoned (rule R-unwind a), nothing is destroyed twice
                self.settle_doomed(&all, drop_panic, what);
            }
            Err(t) => self.unexpected(what, t),
        }
        true
    }

    fn unexpected(&mut self, what: &str, t: Thrown) {
        match t {
            Thrown::Injected => tok::raise(V10_UNEXPECTED_PANIC, format!("{}: an injected panic surfaced where none was planned (harness)", what)),
            Thrown::Genuine(msg) => tok::raise(V10_UNEXPECTED_PANIC, format!("{} panicked: {}", what, msg)),
        }
    }

    // ---------------------------------------------------------------- teardown helpers

    /// Destroy whatever form is held; `f` = drop-panic annotation. Counts as a cancel when an
    /// iterator is held.
    fn drop_form(&mut self, f: u32, what: &str) {
        let form = std::mem::replace(&mut self.form, Form::Gone);
        let grps: Vec<Grp> = match &form {
            Form::It(_) => self.dq.drain(..).collect(),
            Form::Gone => Vec::new(),
            _ => self.model.drain(..).collect(),
        };
        if let Form::It(_) = &form {
            let (s, e) = self.cur_state();
            self.st.cov[self.slot].mark(1, s, e);
            self.st.fault_cfg[F_CANCEL] += 1;
            self.st.fault_fired[F_CANCEL] += 1;
            let live = grps.len();
            if live == <$K as Kind<X>>::N {
                self.st.probes[P_CANCEL_ALL_LIVE] += 1;
            }
            if live == 1 {
                self.st.probes[P_CANCEL_ONE_LIVE] += 1;
            }
            if live == 0 {
                self.st.probes[P_CANCEL_NONE_LIVE] += 1;
            }
            if self.inner.is_some() {
                self.st.probes[P_NESTED_CANCEL] += 1;
            }
        }
        if matches!(form, Form::Gone) {
            return;
        }
        for g in &grps {
            g.set_owner(OWN_DOOMED);
        }
        if f > 0 {
            self.st.fault_cfg[F_DROP_PANIC] += 1;
        }
        let (r, fired) = guard(m(OWN_DOOMED), 0, plan_of(Cb::Drop, f), move || drop(form));
        if fired {
            self.st.fault_fired[F_DROP_PANIC] += 1;
            self.st.probes[P_DROP_PANIC_FIRED] += 1;
        }
        match r {
            Ok(()) => {}
            Err(Thrown::Injected) if fired => {}
            Err(t) => {
                self.unexpected(what, t);
                return;
            }
        }
        self.settle_doomed(&grps, fired, what);
    }

    fn forget_form(&mut self) {
        let form = std::mem::replace(&mut self.form, Form::Gone);
        let grps: Vec<Grp> = match &form {
            Form::It(_) => self.dq.drain(..).collect(),
            Form::Gone => return,
            _ => self.model.drain(..).collect(),
        };
        if let Form::It(_) = &form {
            let (s, e) = self.cur_state();
            self.st.cov[self.slot].mark(1, s, e);
        }
        self.st.fault_cfg[F_FORGET] += 1;
        self.st.fault_fired[F_FORGET] += 1;
        self.st.probes[P_FORGET] += 1;
        std::mem::forget(form);
        for g in &grps {
            for id in g.iter() {
                tok::set_state(id, St::Forgotten);
            }
        }
    }

    fn drop_twin(&mut self) {
        if let Some((t, dq, _, _)) = self.twin.take() {
            let grps: Vec<Grp> = dq.into_iter().collect();
            let _ = guard_nopanic("drop of the twin iterator", m(OWN_TWIN), 0, move || drop(t));
            self.settle_doomed(&grps, false, "drop of the twin iterator");
        }
    }

    fn drop_inner(&mut self) {
        if let Some((it, dq)) = self.inner.take() {
            let _ = guard_nopanic("drop of the inner iterator", m(OWN_INNER), 0, move || drop(it));
            for id in dq {
                if !tok::gone(id) {
                    tok::raise(V7_LEAK, format!("drop of the inner iterator: id {} was neither yielded nor dropped", id));
                    return;
                }
            }
        }
    }

    fn drop_leftovers(&mut self) {
        if !self.leftovers.is_empty() {
            let l = std::mem::take(&mut self.leftovers);
            let _ = guard_nopanic("harness drops unpulled source elements", m(OWN_HARNESS) | m(OWN_DOOMED), 0, move || drop(l));
        }
    }

    /// End of run: everything still held goes away; then the ledger must be quiescent.
    pub fn finish(&mut self) {
        if !tok::has_violation() {
            self.drop_form(0, "final drop");
        }
        if !tok::has_violation() {
            self.drop_inner();
        }
        if !tok::has_violation() {
            self.drop_twin();
        }
        if !tok::has_violation() {
            let bag = std::mem::take(&mut self.bag);
            let _ = guard_nopanic("caller drops its bag", m(OWN_BAG), 0, move || drop(bag));
        }
        if !tok::has_violation() {
            self.drop_leftovers();
        }
        if tok::has_violation() {
            // Do not run any more element destructors on a state we no longer trust.
            std::mem::forget(std::mem::replace(&mut self.form, Form::Gone));
            std::mem::forget(self.twin.take());
            std::mem::forget(self.inner.take());
            std::mem::forget(std::mem::take(&mut self.bag));
            std::mem::forget(std::mem::take(&mut self.leftovers));
        }
    }

    // ---------------------------------------------------------------- from_iter family

    /// Shared post-condition of `from_iter`-like operations that completed normally:
    /// positions < seq.len() hold `seq` in order, the rest hold fresh defaults, and every other
    /// default created by this operation is gone.
    fn settle_from_iter(&mut self, v: <$K as Kind<X>>::V, seq: &[Grp], what: &str) {
        let n = <$K as Kind<X>>::N;
        let mut model = Vec::with_capacity(n);
        for i in 0..n {
            let got = <$K as Kind<X>>::v_field(&v, i).grp();
            if i < seq.len() {
                if got != seq[i] {
                    tok::raise(V5_ORDER, format!("{}: position {} holds ids {:?}, source order says {:?}", what, i, &got.ids[..got.n as usize], &seq[i].ids[..seq[i].n as usize]));
                    std::mem::forget(v);
                    return;
                }
            } else if !is_default_live_fresh(&got) {
                tok::raise(V5_ORDER, format!("{}: position {} should hold a fresh default element, holds ids {:?}", what, i, &got.ids[..got.n as usize]));
                std::mem::forget(v);
                return;
            }
            model.push(got);
        }
        // distinctness
        for i in 0..n {
            for j in 0..i {
                if model[i] == model[j] {
                    tok::raise(V5_ORDER, format!("{}: positions {} and {} hold the same element", what, j, i));
                    std::mem::forget(v);
                    return;
                }
            }
        }
        for g in &model {
            g.set_owner(OWN_MAIN);
        }
        // remaining fresh ids (overwritten defaults) must be gone
        for id in tok::fresh_in_op() {
            if tok::owner_of(id) == OWN_FRESH && !tok::gone(id) {
                tok::raise(V7_LEAK, format!("{}: default element id {} was overwritten but never dropped", what, id));
                std::mem::forget(v);
                return;
            }
        }
        if seq.len() < n {
            self.st.probes[P_COLLECT_WITH_DEFAULTS] += 1;
        }
        self.model = model;
        self.form = Form::V(v);
    }

    /// Post-condition after an unwinding `from_iter`/`default`: nothing it created or pulled survives.
    fn settle_unwound(&mut self, pulled: &[Grp], what: &str) {
        for id in tok::fresh_in_op() {
            if !tok::gone(id) {
                tok::raise(V7_LEAK, format!("{} unwound: default element id {} leaked", what, id));
                return;
            }
        }
        for g in pulled {
            for id in g.iter() {
                if !tok::gone(id) {
                    tok::raise(V7_LEAK, format!("{} unwound: pulled element id {} leaked", what, id));
                    return;
                }
            }
        }
    }

    // ---------------------------------------------------------------- the interpreter

    /// Returns false when the operation's precondition did not hold (skipped).
    pub fn step(&mut self, op: Op) -> bool {
        use OpK::*;
        let n = <$K as Kind<X>>::N;
        match op.k {
            // ------------------------------------------------------------ form changes
            ArrToV | VNew => {
                let a = match std::mem::replace(&mut self.form, Form::Gone) {
                    Form::Arr(a) => a,
                    other => {
                        self.form = other;
                        return false;
                    }
                };
                let what = if op.k == ArrToV { "V::from([T; N])" } else { "V::new(..)" };
                let isnew = op.k == VNew;
                if let Some(v) = guard_nopanic(what, 0, 0, move || if isnew { <$K as Kind<X>>::v_new(a) } else { <$K as Kind<X>>::v_from_arr(a) }) {
                    self.form = Form::V(v);
                    self.chain += 1;
                    self.check_form(what);
                }
                true
            }
            TupToV => {
                let t = match std::mem::replace(&mut self.form, Form::Gone) {
                    Form::Tup(t) => t,
                    other => {
                        self.form = other;
                        return false;
                    }
                };
                if let Some(v) = guard_nopanic("V::from(tuple)", 0, 0, move || <$K as Kind<X>>::v_from_tup(t)) {
                    self.form = Form::V(v);
                    self.chain += 1;
                    self.check_form("V::from(tuple)");
                }
                true
            }
            VToArr | VToTup => {
                let v = match std::mem::replace(&mut self.form, Form::Gone) {
                    Form::V(v) => v,
                    other => {
                        self.form = other;
                        return false;
                    }
                };
                if op.k == VToArr {
                    if let Some(a) = guard_nopanic("into_array", 0, 0, move || <$K as Kind<X>>::v_into_arr(v)) {
                        self.form = Form::Arr(a);
                        self.check_form("into_array");
                    }
                } else if let Some(t) = guard_nopanic("into_tuple", 0, 0, move || <$K as Kind<X>>::v_into_tup(v)) {
                    self.form = Form::Tup(t);
                    self.check_form("into_tuple");
                }
                self.chain += 1;
                true
            }
            ArrToTup => {
                match std::mem::replace(&mut self.form, Form::Gone) {
                    Form::Arr(a) => self.form = Form::Tup(<$K as Kind<X>>::tup_from_arr(a)),
                    other => {
                        self.form = other;
                        return false;
                    }
                }
                true
            }
            TupToArr => {
                match std::mem::replace(&mut self.form, Form::Gone) {
                    Form::Tup(t) => self.form = Form::Arr(<$K as Kind<X>>::arr_from_tup(t)),
                    other => {
                        self.form = other;
                        return false;
                    }
                }
                true
            }
            FromIterStub => {
                let a = match std::mem::replace(&mut self.form, Form::Gone) {
                    Form::Arr(a) => a,
                    other => {
                        self.form = other;
                        return false;
                    }
                };
                // harness plumbing: [X; N] -> VecDeque<X> through std's by-value array iterator
                let mut items: VecDeque<X> = VecDeque::with_capacity(n + 4);
                <$K as Kind<X>>::arr_drain(a, &mut items);
                let src_model: Vec<Grp> = std::mem::take(&mut self.model);
                let mode = op.a % 7;
                let j = (op.b & 0xff) as usize;
                let hint = ((op.b >> 8) & 3) as u8;
                let mut eof_after = usize::MAX;
                let mut panic_at = 0usize;
                let mut surplus = 0usize;
                let mut gap_at: Option<usize> = None;
                let mut polled_after_end = 0usize;
                let mut hint_panic = false;
                let mut drop_panic = false;
                let mut extra_fired = false;
                match mode {
                    0 => {
                        self.st.probes[P_FROMITER_EXACT] += 1;
                    }
                    5 => {
                        // the source's size_hint() unwinds (if from_iter asks at all)
                        hint_panic = true;
                        self.st.fault_cfg[F_SOURCE_EXTRA] += 1;
                    }
                    6 => {
                        // the source's own destructor unwinds, after 0..=N elements were handed over
                        drop_panic = true;
                        eof_after = j % (n + 1);
                        self.st.fault_cfg[F_SOURCE_EXTRA] += 1;
                    }
                    1 => {
                        eof_after = j % n; // strictly fewer than N
                        self.st.probes[P_FROMITER_SHORT] += 1;
                        self.st.fault_cfg[F_SOURCE] += 1;
                        self.st.fault_fired[F_SOURCE] += 1;
                    }
                    2 => {
                        surplus = 1 + j % 3;
                        self.st.probes[P_FROMITER_SURPLUS] += 1;
                        self.st.fault_cfg[F_SOURCE] += 1;
                        self.st.fault_fired[F_SOURCE] += 1;
                    }
                    4 => {
                        // not fused: one `None` after j % n elements, more elements behind it
                        gap_at = Some(j % n);
                        self.st.probes[P_FROMITER_GAP] += 1;
                        self.st.fault_cfg[F_SOURCE] += 1;
                        self.st.fault_fired[F_SOURCE] += 1;
                    }
                    _ => {
                        panic_at = 1 + j % (n + 2);
                        self.st.fault_cfg[F_SOURCE] += 1;
                    }
                }
                if hint != 0 {
                    self.st.probes[P_LYING_HINT] += 1;
                }
                for s in 0..surplus {
                    let x = X::fresh((n + s) as u32, OWN_HARNESS);
                    self.st.elements_created += X::W as u64;
                    items.push_back(x);
                }
                for x in items.iter() {
                    x.grp().set_owner(OWN_HARNESS);
                }
                if op.f > 0 {
                    self.st.fault_cfg[F_DEFAULT_PANIC] += 1;
                }
                let mut sink: Vec<X> = Vec::new();
                let mut pulled: Vec<Grp> = Vec::new();
                let relaxed = panic_at != 0 || op.f > 0 || hint_panic || drop_panic;
                let allow = m(OWN_FRESH) | m(OWN_DOOMED) | if relaxed { m(OWN_MAIN) } else { 0 };
                let (r, fired) = {
                    let src = StubSource { buf: items, sink: &mut sink, pulled: &mut pulled, eof_after, panic_at, hint, cap: n, calls: 0, gap_at, gap_done: false, polled_after_end: &mut polled_after_end, hint_panic, drop_panic, extra_fired: &mut extra_fired };
                    guard(allow, 0, plan_of(Cb::Default, op.f), move || <$K as Kind<X>>::v_from_iter(src))
                };
                self.leftovers.append(&mut sink);
                let _ = src_model;
                if polled_after_end > 0 && !tok::has_violation() {
                    // The end of a source is its first `None` (what a source does after that is
                    // unspecified by the Iterator contract, so a consumer must not depend on it):
                    // elements from beyond it were pulled, i.e. transferred although the sequence
                    // had ended.
                    tok::raise(V5_ORDER, format!("from_iter polled its source again after the source had returned None ({} more calls) and pulled elements from beyond the end of the sequence", polled_after_end));
                    if let Ok(v) = r {
                        std::mem::forget(v);
                    }
                    return true;
                }
                match r {
                    Ok(v) => {
                        // A vector holds N elements, so from_iter has no use for an (N+1)-th one. The
                        // unchanged tree pulls at most N; a source handed over by reference
                        // (`it.by_ref().collect()`, the idiom for cutting a stream into consecutive
                        // vectors) keeps the rest. Pulling more and destroying it makes the caller lose
                        // elements that were not transferred anywhere (Zip's documented footgun when
                        // the source is the left operand).
                        if pulled.len() > n {
                            let extra = pulled.len() - n;
                            let gone = pulled.iter().skip(n).all(|g| self.all_dropped(g.iter()).is_none());
                            tok::raise(
                                if gone { V8_UNEXPECTED_DROP } else { V7_LEAK },
                                format!("from_iter pulled {} element(s) beyond the vector's capacity from its source and {} them: the source loses elements that were not transferred", extra, if gone { "destroyed" } else { "neither stored nor destroyed" }),
                            );
                            std::mem::forget(v);
                            return true;
                        }
                        let seq: Vec<Grp> = pulled.iter().take(n).copied().collect();
                        self.settle_from_iter(v, &seq, "from_iter");
                        self.chain += 1;
                    }
                    Err(Thrown::Injected) => {
                        if fired {
                            self.st.fault_fired[F_DEFAULT_PANIC] += 1;
                            self.st.probes[P_DEFAULT_PANIC_FIRED] += 1;
                        } else if hint_panic || extra_fired {
                            self.st.fault_fired[F_SOURCE_EXTRA] += 1;
                            self.st.probes[P_SOURCE_EXTRA_FIRED] += 1;
                            if extra_fired {
                                // R-unwind (a): the unwinding came out of a *destructor* (the source's own).
                                // rustc leaks a function's already-computed return value when the
                                // destructor of one of its locals panics (rust-lang/rust#47949), so the
                                // finished vector may be abandoned: no container code can prevent that.
                                // Abandoned elements are exempt from the leak check only.
                                for id in tok::fresh_in_op() {
                                    if !tok::gone(id) && tok::state_of(id) == Some(St::Live) {
                                        tok::set_state(id, St::MayLeak);
                                    }
                                }
                                for g in &pulled {
                                    for id in g.iter() {
                                        if !tok::gone(id) && tok::state_of(id) == Some(St::Live) {
                                            tok::set_state(id, St::MayLeak);
                                        }
                                    }
                                }
                            }
                        } else {
                            self.st.fault_fired[F_SOURCE] += 1;
                            self.st.probes[P_SOURCE_PANIC_FIRED] += 1;
                        }
                        if !extra_fired {
                            self.settle_unwound(&pulled, "from_iter");
                        }
                    }
                    Err(t) => self.unexpected("from_iter", t),
                }
                if !tok::has_violation() {
                    self.drop_leftovers();
                }
                true
            }
            VDefault => {
                self.drop_form(0, "drop before V::default()");
                if tok::has_violation() {
                    return true;
                }
                if op.f > 0 {
                    self.st.fault_cfg[F_DEFAULT_PANIC] += 1;
                }
                let (r, fired) = guard(m(OWN_FRESH), 0, plan_of(Cb::Default, op.f), || <$K as Kind<X>>::v_default());
                match r {
                    Ok(v) => self.settle_from_iter(v, &[], "V::default()"),
                    Err(Thrown::Injected) if fired => {
                        self.st.fault_fired[F_DEFAULT_PANIC] += 1;
                        self.st.probes[P_DEFAULT_PANIC_FIRED] += 1;
                        self.settle_unwound(&[], "V::default()");
                    }
                    Err(t) => self.unexpected("V::default()", t),
                }
                true
            }
            VIntoIter => {
                let v = match std::mem::replace(&mut self.form, Form::Gone) {
                    Form::V(v) => v,
                    other => {
                        self.form = other;
                        return false;
                    }
                };
                let via_trait = op.a & 1 == 1;
                if let Some(it) = guard_nopanic("into_iter", 0, 0, move || if via_trait { <$K as Kind<X>>::v_into_iter_trait(v) } else { <$K as Kind<X>>::v_into_iter(v) }) {
                    self.form = Form::It(it);
                    self.dq = self.model.drain(..).collect();
                    self.front = 0;
                    self.back = 0;
                    if self.chain >= 2 {
                        self.st.probes[P_CHAIN_GE2] += 1;
                    }
                    self.check_len("into_iter");
                    self.st.cov[self.slot].mark(2, 0, n);
                }
                true
            }
            // ------------------------------------------------------------ on a vector value
            SliceRead => {
                let v = match &self.form {
                    Form::V(v) => v,
                    _ => return false,
                };
                let via = (op.a % N_VIA as u32) as u8;
                let model = &self.model;
                let _ = guard_nopanic(via_name(via, false), 0, 0, || {
                    let s = <$K as Kind<X>>::v_slice(v, via);
                    if s.len() != n {
                        tok::raise(V9_ALIAS, format!("{} has length {} on a {}-element {}", via_name(via, false), s.len(), n, <$K as Kind<X>>::NAME));
                        return;
                    }
                    for i in 0..n {
                        if s.as_ptr().wrapping_add(i) != <$K as Kind<X>>::v_field(v, i) as *const X {
                            tok::raise(V9_ALIAS, format!("{}: entry {} does not alias field {} of the value", via_name(via, false), i, i));
                            return;
                        }
                    }
                    for i in 0..n {
                        if s[i].grp() != model[i] {
                            tok::raise(V5_ORDER, format!("{}: entry {} is not the element declared at position {}", via_name(via, false), i, i));
                            return;
                        }
                    }
                });
                true
            }
            SliceSwap | SliceReplace => {
                let v = match &mut self.form {
                    Form::V(v) => v,
                    _ => return false,
                };
                let via = (op.a % N_VIA as u32) as u8;
                let i = (op.b & 0xff) as usize % n;
                let j = ((op.b >> 8) & 0xff) as usize % n;
                let fields: Vec<*const X> = (0..n).map(|q| <$K as Kind<X>>::v_field(v, q) as *const X).collect();
                let replace = op.k == SliceReplace;
                let newx = if replace {
                    self.st.elements_created += X::W as u64;
                    self.st.probes[P_SLICE_REPLACE] += 1;
                    self.model[i].set_owner(OWN_DOOMED);
                    Some(X::fresh(100 + i as u32, OWN_MAIN))
                } else {
                    None
                };
                let newg = newx.as_ref().map(|x| x.grp());
                let mut spare = newx;
                let _ = guard_nopanic(via_name(via, true), m(OWN_DOOMED), 0, || {
                    let s = <$K as Kind<X>>::v_slice_mut(v, via);
                    if s.len() != n {
                        tok::raise(V9_ALIAS, format!("{} has length {} on a {}-element {}", via_name(via, true), s.len(), n, <$K as Kind<X>>::NAME));
                        return;
                    }
                    for q in 0..n {
                        if s.as_ptr().wrapping_add(q) != fields[q] {
                            tok::raise(V9_ALIAS, format!("{}: entry {} does not alias field {} of the value", via_name(via, true), q, q));
                            return;
                        }
                    }
                    if let Some(x) = spare.take() {
                        s[i] = x;
                    } else {
                        s.swap(i, j);
                    }
                });
                if let Some(x) = spare.take() {
                    // not stored because of a violation above
                    std::mem::forget(x);
                    return true;
                }
                if replace {
                    let old = self.model[i];
                    self.model[i] = newg.unwrap();
                    self.settle_doomed(&[old], false, "replacement through a mutable slice view");
                } else {
                    self.model.swap(i, j);
                }
                self.check_form(via_name(via, true));
                true
            }
            VObserve => {
                let v = match &self.form {
                    Form::V(v) => v,
                    _ => return false,
                };
                if op.f > 0 {
                    self.st.fault_cfg[F_OBSERVE_PANIC] += 1;
                }
                let kind = op.a % 4;
                if op.b > 0 && (kind == 0 || kind == 3) {
                    self.st.fault_cfg[F_SINK] += 1;
                    set_sink_fail(op.b);
                }
                if op.b > 0 && kind == 1 {
                    self.st.fault_cfg[F_HASHER] += 1;
                    tok::set_hash_fail(op.b);
                }
                let (r, fired) = guard(0, m(OWN_MAIN), plan_of(Cb::Observe, op.f), || match kind {
                    0 => {
                        <$K as Kind<X>>::v_observe_debug(v);
                    }
                    1 => {
                        <$K as Kind<X>>::v_observe_hash(v);
                    }
                    2 => {
                        <$K as Kind<X>>::v_observe_eq(v, v);
                    }
                    _ => {
                        <$K as Kind<X>>::v_observe_display(v);
                    }
                });
                if fired {
                    self.st.fault_fired[F_OBSERVE_PANIC] += 1;
                    self.st.probes[P_OBS_PANIC_FIRED] += 1;
                }
                if take_sink_fired() {
                    self.st.fault_fired[F_SINK] += 1;
                }
                let hfired = tok::take_hash_fired();
                if hfired {
                    self.st.fault_fired[F_HASHER] += 1;
                }
                match r {
                    Ok(()) => {}
                    Err(Thrown::Injected) if fired || hfired => {}
                    Err(t) => self.unexpected("observe on a vector", t),
                }
                self.check_form("observe");
                true
            }
            VMap => {
                let v = match std::mem::replace(&mut self.form, Form::Gone) {
                    Form::V(v) => v,
                    other => {
                        self.form = other;
                        return false;
                    }
                };
                let mode = op.a % 4;
                let what = match mode {
                    0 => "map",
                    1 => "zip + map",
                    2 => "map2",
                    _ => "map3",
                };
                // the second operand (modes 1, 2): fresh elements which the closure destroys
                let (w, wg) = if mode > 0 {
                    let (items, grps) = Self::fresh_items(OWN_DOOMED);
                    self.st.elements_created += (n * X::W) as u64;
                    (Some(<$K as Kind<X>>::v_from_arr(<$K as Kind<X>>::arr_from_vec(items))), grps)
                } else {
                    (None, Vec::new())
                };
                // the third operand (mode 3)
                let (u, ug) = if mode == 3 {
                    let (items, grps) = Self::fresh_items(OWN_DOOMED);
                    self.st.elements_created += (n * X::W) as u64;
                    (Some(<$K as Kind<X>>::v_from_arr(<$K as Kind<X>>::arr_from_vec(items))), grps)
                } else {
                    (None, Vec::new())
                };
                let wg: Vec<Grp> = wg.into_iter().chain(ug.into_iter()).collect();
                if op.f > 0 {
                    self.st.fault_cfg[F_CLOSURE_PANIC] += 1;
                }
                let panic_at = op.f as usize;
                let mut calls = 0usize;
                let mut fired = false;
                let mut order: Vec<Grp> = Vec::with_capacity(n);
                let allow = m(OWN_DOOMED) | if op.f > 0 { m(OWN_MAIN) } else { 0 };
                let (r, _) = {
                    let calls = &mut calls;
                    let fired = &mut fired;
                    let order = &mut order;
                    guard(allow, 0, None, move || {
                        let mut hit = |x: &X| {
                            *calls += 1;
                            order.push(x.grp());
                            if panic_at != 0 && *calls == panic_at {
                                *fired = true;
                                tok::note(EV_INJECT, 7000 + *calls as u64);
                                std::panic::panic_any(Injected);
                            }
                        };
                        match mode {
                            0 => <$K as Kind<X>>::v_map(v, |x| {
                                hit(&x);
                                x
                            }),
                            1 => <$K as Kind<X>>::v_zip_map(v, w.unwrap(), |x, y| {
                                hit(&x);
                                drop(y);
                                x
                            }),
                            2 => <$K as Kind<X>>::v_map2(v, w.unwrap(), |x, y| {
                                hit(&x);
                                drop(y);
                                x
                            }),
                            _ => <$K as Kind<X>>::v_map3(v, w.unwrap(), u.unwrap(), |x, y, z| {
                                hit(&x);
                                drop(z);
                                drop(y);
                                x
                            }),
                        }
                    })
                };
                if fired {
                    self.st.fault_fired[F_CLOSURE_PANIC] += 1;
                    self.st.probes[P_CLOSURE_PANIC_FIRED] += 1;
                }
                match r {
                    Ok(v2) => {
                        // every element was handed to the closure exactly once
                        let mut seen = order.clone();
                        seen.sort_by_key(|g| g.first());
                        let mut want = self.model.clone();
                        want.sort_by_key(|g| g.first());
                        if seen != want {
                            tok::raise(V5_ORDER, format!("{}: the closure was handed {} elements, not each of the {} exactly once", what, order.len(), n));
                            std::mem::forget(v2);
                            return true;
                        }
                        self.form = Form::V(v2);
                        self.check_form(what);
                        self.settle_doomed(&wg, false, what);
                    }
                    Err(Thrown::Injected) if fired => {
                        // ordinary unwinding through a user closure (rule R-unwind): every element is
                        // destroyed exactly once on the way out, none twice, none left behind
                        let all: Vec<Grp> = self.model.drain(..).chain(wg.into_iter()).collect();
                        self.settle_doomed(&all, false, what);
                    }
                    Err(t) => self.unexpected(what, t),
                }
                true
            }
            VReduce => {
                let v = match std::mem::replace(&mut self.form, Form::Gone) {
                    Form::V(v) => v,
                    other => {
                        self.form = other;
                        return false;
                    }
                };
                self.st.probes[P_VREDUCE] += 1;
                let keep_new = op.a % 2 == 1;
                let what = "reduce";
                let all: Vec<Grp> = self.model.drain(..).collect();
                // the closure destroys one of its two arguments at every call; what is left at the
                // end is destroyed by the harness
                for g in &all {
                    g.set_owner(OWN_DOOMED);
                }
                if op.f > 0 {
                    self.st.fault_cfg[F_CLOSURE_PANIC] += 1;
                }
                let panic_at = op.f as usize;
                let mut calls = 0usize;
                let mut fired = false;
                // Ownership law of a reduction, whatever its shape (left fold, right fold, tree): every
                // call consumes two distinct values that are alive — elements not yet handed out, or
                // results of earlier calls — and its result becomes alive; one value is left at the end.
                // (In which order the elements are combined is C02's business, not C18's.)
                let mut alive: Vec<Grp> = all.clone();
                let mut bad: Option<String> = None;
                let (r, _) = {
                    let calls = &mut calls;
                    let fired = &mut fired;
                    let alive = &mut alive;
                    let bad = &mut bad;
                    guard(m(OWN_DOOMED), 0, None, move || {
                        <$K as Kind<X>>::v_reduce(v, |a, b| {
                            if tok::should_abandon() {
                                std::panic::panic_any(Injected);
                            }
                            *calls += 1;
                            let (ga, gb) = (a.grp(), b.grp());
                            if bad.is_none() {
                                if ga == gb {
                                    *bad = Some(format!("call {}: both arguments are the same element (id {})", *calls, ga.first()));
                                } else if !alive.contains(&ga) {
                                    *bad = Some(format!("call {}: the closure was handed id {} which had already been consumed", *calls, ga.first()));
                                } else if !alive.contains(&gb) {
                                    *bad = Some(format!("call {}: the closure was handed id {} which had already been consumed", *calls, gb.first()));
                                }
                            }
                            if *calls > 80 {
                                std::panic::panic_any(Injected);
                            }
                            if panic_at != 0 && *calls == panic_at {
                                *fired = true;
                                tok::note(EV_INJECT, 7000 + *calls as u64);
                                std::panic::panic_any(Injected);
                            }
                            let gone = if keep_new { ga } else { gb };
                            alive.retain(|g| *g != gone);
                            if keep_new {
                                drop(a);
                                b
                            } else {
                                drop(b);
                                a
                            }
                        })
                    })
                };
                if fired {
                    self.st.fault_fired[F_CLOSURE_PANIC] += 1;
                    self.st.probes[P_CLOSURE_PANIC_FIRED] += 1;
                }
                if let Some(b) = bad {
                    tok::raise(V5_ORDER, format!("reduce on a {}: {}", <$K as Kind<X>>::NAME, b));
                    if let Ok(x) = r {
                        std::mem::forget(x);
                    }
                    return true;
                }
                match r {
                    Ok(x) => {
                        let survivor = x.grp();
                        if calls != n - 1 || alive.len() != 1 || alive[0] != survivor {
                            tok::raise(V5_ORDER, format!("reduce on a {}: {} calls on {} elements; {} values were never handed to the closure, or the result (id {}) is not the value the last call returned", <$K as Kind<X>>::NAME, calls, n, alive.len().saturating_sub(1), survivor.first()));
                            std::mem::forget(x);
                            return true;
                        }
                        let _ = guard_nopanic("drop of the value reduce returned", m(OWN_DOOMED), 0, move || drop(x));
                        self.settle_doomed(&all, false, what);
                    }
                    Err(Thrown::Injected) if fired => {
                        // ordinary unwinding through a user closure (rule R-unwind b)
                        self.settle_doomed(&all, false, what);
                    }
                    Err(t) => self.unexpected(what, t),
                }
                true
            }
            VKindConv => {
                let specs = <$K as Kind<X>>::kc_specs();
                if specs.is_empty() {
                    return false;
                }
                let v = match std::mem::replace(&mut self.form, Form::Gone) {
                    Form::V(v) => v,
                    other => {
                        self.form = other;
                        return false;
                    }
                };
                let variant = op.a as usize % specs.len();
                let spec = &specs[variant];
                self.st.probes[P_KIND_CONV] += 1;
                // extra elements handed in: those that end up in the result belong to the value,
                // the others (and every own element the conversion cuts off) are destroyed by it
                let mut extras: Vec<X> = Vec::with_capacity(spec.extras);
                let mut eg: Vec<Grp> = Vec::with_capacity(spec.extras);
                for j in 0..spec.extras {
                    let kept = spec.result.iter().any(|&r| r == -(j as i8 + 1));
                    let x = X::fresh(if self.uniform { 0 } else { 100 + j as u32 }, if kept { OWN_MAIN } else { OWN_DOOMED });
                    eg.push(x.grp());
                    extras.push(x);
                }
                self.st.elements_created += (spec.extras * X::W) as u64;
                let mut newmodel: Vec<Grp> = Vec::with_capacity(n);
                let has_zero = spec.result.iter().any(|&r| r == KC_ZERO);
                for &r in spec.result.iter() {
                    newmodel.push(if r == KC_ZERO { Grp::EMPTY } else if r >= 0 { self.model[r as usize] } else { eg[(-r - 1) as usize] });
                }
                let mut doomed: Vec<Grp> = Vec::new();
                for (i, g) in self.model.iter().enumerate() {
                    if !spec.result.iter().any(|&r| r == i as i8) {
                        g.set_owner(OWN_DOOMED);
                        doomed.push(*g);
                    }
                }
                for (j, g) in eg.iter().enumerate() {
                    if !spec.result.iter().any(|&r| r == -(j as i8 + 1)) {
                        doomed.push(*g);
                    }
                }
                if !doomed.is_empty() {
                    self.st.probes[P_KIND_CONV_TRUNC] += 1;
                }
                // conversions that pad with `T::zero()` create elements (and may destroy them again further
                // down the chain)
                match guard_nopanic(spec.name, m(OWN_DOOMED) | m(OWN_FRESH), 0, move || <$K as Kind<X>>::v_kind_conv(v, variant, extras)) {
                    Some(v2) => {
                        if has_zero {
                            // a padded position holds a live element that zero() created during this operation
                            let fresh = tok::fresh_in_op();
                            for (i, &r) in spec.result.iter().enumerate() {
                                if r == KC_ZERO {
                                    let g = <$K as Kind<X>>::v_field(&v2, i).grp();
                                    if !is_default_live_fresh(&g) || !g.iter().all(|id| fresh.contains(&id)) || newmodel.contains(&g) {
                                        tok::raise(V5_ORDER, format!("{}: position {} holds ids {:?}, not a fresh element created by zero()", spec.name, i, &g.ids[..g.n as usize]));
                                        std::mem::forget(v2);
                                        self.model.clear();
                                        return true;
                                    }
                                    g.set_owner(OWN_MAIN);
                                    newmodel[i] = g;
                                }
                            }
                        }
                        self.model = newmodel;
                        self.form = Form::V(v2);
                        self.check_form(spec.name);
                        self.settle_doomed(&doomed, false, spec.name);
                    }
                    None => {
                        self.model.clear();
                    }
                }
                true
            }
            VArith => {
                let v = match std::mem::replace(&mut self.form, Form::Gone) {
                    Form::V(v) => v,
                    other => {
                        self.form = other;
                        return false;
                    }
                };
                let mode = op.a % 21;
                let ro = <$K as Kind<X>>::ref_ops();
                if mode >= 11 && ro.is_none() {
                    // the reference-left and the ordering-based forms exist for the leaf element shapes only
                    self.form = Form::V(v);
                    return false;
                }
                if mode >= 13 {
                    return self.arith_ord(v, mode - 13, op, ro.unwrap());
                }
                let keep_last = (op.b >> 8) & 1 == 1;
                let what = match mode {
                    0 => ["v + w", "v - w", "v * w", "v / w", "v % w", "v & w", "v | w", "v ^ w", "v << w", "v >> w"][((op.b >> 16) % 10) as usize],
                    1 => "v + [array]",
                    2 => "v * (tuple)",
                    3 => "v + &w",
                    4 => ["v += w", "v -= w", "v *= w", "v /= w", "v %= w", "v &= w", "v |= w", "v ^= w", "v <<= w", "v >>= w"][((op.b >> 16) % 10) as usize],
                    5 => ["-v", "!v"][((op.b >> 16) % 2) as usize],
                    6 => "v.mul_add(w, u)",
                    7 => "Sum over a source of vectors",
                    8 => "Product over a source of vectors",
                    9 => "v.sum()",
                    10 => "v.product()",
                    11 => "&v + w",
                    _ => "&v + &w",
                };
                self.st.probes[P_ARITH] += 1;
                // how many further operand vectors the operation takes
                let extra = match mode {
                    0 | 1 | 2 | 3 | 4 | 11 | 12 => 1,
                    6 => 2,
                    7 | 8 => ((op.b & 0xff) % 3) as usize,
                    _ => 0,
                };
                let mut operands: Vec<<$K as Kind<X>>::V> = Vec::with_capacity(extra);
                let mut og: Vec<Vec<Grp>> = Vec::with_capacity(extra);
                for _ in 0..extra {
                    let (items, grps) = Self::fresh_items_u(OWN_DOOMED, self.uniform);
                    self.st.elements_created += (n * X::W) as u64;
                    operands.push(<$K as Kind<X>>::v_from_arr(<$K as Kind<X>>::arr_from_vec(items)));
                    og.push(grps);
                }
                let mine: Vec<Grp> = self.model.clone();
                // every element that takes part, and its lane (position in its vector, times W, plus leaf index)
                let mut lane_of: std::collections::BTreeMap<u32, usize> = std::collections::BTreeMap::new();
                for grps in std::iter::once(&mine).chain(og.iter()) {
                    for (i, g) in grps.iter().enumerate() {
                        for (j, id) in g.iter().enumerate() {
                            lane_of.insert(id, i * X::W + j);
                        }
                    }
                }
                let op_panic = if op.f > 0 && op.f < 1000 { op.f } else { 0 };
                let zero_panic = if op.f >= 1000 && (mode == 7 || mode == 8) { op.f - 1000 + 1 } else { 0 };
                let src_panic = if mode == 7 || mode == 8 { ((op.b >> 9) & 0x7f) as usize } else { 0 };
                // which of the ten binary operators / their compound-assignment forms / the two unary ones
                let which_op = op.b >> 16;
                if op_panic > 0 || zero_panic > 0 || src_panic > 0 {
                    self.st.fault_cfg[F_ARITH_PANIC] += 1;
                }
                // owners: by-value operators destroy every operand but the one they return; with a
                // planned panic anything may be destroyed by the unwinding
                let faulty = op_panic > 0 || zero_panic > 0 || src_panic > 0;
                for g in mine.iter() {
                    g.set_owner(if keep_last && !matches!(mode, 3 | 5 | 11 | 12) { OWN_DOOMED } else { OWN_MAIN });
                }
                if matches!(mode, 7 | 8 | 9 | 10) {
                    // a chain of calls: which operand survives depends on the shape of the chain
                    for g in mine.iter() {
                        g.set_owner(OWN_DOOMED);
                    }
                }
                if mode == 11 {
                    // &v + w: the element's operator hands w's lanes back; v is only borrowed
                    for g in og[0].iter() {
                        g.set_owner(OWN_MAIN);
                    }
                }
                let allow = if mode == 12 && !faulty { 0 } else { m(OWN_DOOMED) | m(OWN_FRESH) | if faulty { m(OWN_MAIN) } else { 0 } };
                crate::arith::arm(op_panic, keep_last);
                enum Out<V, X> {
                    V(V),
                    X(X),
                    Assigned,
                }
                let mut kept_v: Option<<$K as Kind<X>>::V> = None; // mode 4: the vector stays with the harness
                let mut kept_w: Option<<$K as Kind<X>>::V> = None; // modes 3, 12: the borrowed right operand
                let mut kept_b: Option<<$K as Kind<X>>::V> = None; // modes 11, 12: the borrowed left operand
                let mut unpulled: Vec<<$K as Kind<X>>::V> = Vec::new();
                let mut pulled = 0usize;
                let mut src_fired = false;
                let (r, zfired) = {
                    let kept_v = &mut kept_v;
                    let kept_w = &mut kept_w;
                    let kept_b = &mut kept_b;
                    let unpulled = &mut unpulled;
                    let pulled = &mut pulled;
                    let src_fired = &mut src_fired;
                    let mut operands = operands;
                    guard(allow, m(OWN_MAIN) | m(OWN_DOOMED) | m(OWN_FRESH), plan_of(Cb::Default, zero_panic), move || -> Out<<$K as Kind<X>>::V, X> {
                        match mode {
                            0 => Out::V(<$K as Kind<X>>::v_binop(v, operands.pop().unwrap(), which_op)),
                            1 => Out::V(<$K as Kind<X>>::v_add_arr(v, <$K as Kind<X>>::v_into_arr(operands.pop().unwrap()))),
                            2 => Out::V(<$K as Kind<X>>::v_mul_tup(v, <$K as Kind<X>>::v_into_tup(operands.pop().unwrap()))),
                            3 => {
                                *kept_w = operands.pop();
                                Out::V(<$K as Kind<X>>::v_add_ref(v, kept_w.as_ref().unwrap()))
                            }
                            4 => {
                                *kept_v = Some(v);
                                <$K as Kind<X>>::v_assign(kept_v.as_mut().unwrap(), operands.pop().unwrap(), which_op);
                                Out::Assigned
                            }
                            5 => Out::V(<$K as Kind<X>>::v_unop(v, which_op)),
                            6 => {
                                let u = operands.pop().unwrap();
                                let w = operands.pop().unwrap();
                                Out::V(<$K as Kind<X>>::v_mul_add(v, w, u))
                            }
                            7 | 8 => {
                                // the source yields v first, then the further vectors; what it has not
                                // handed out when it is dropped goes back to the harness
                                struct Src<'a, V> {
                                    buf: VecDeque<V>,
                                    back: &'a mut Vec<V>,
                                    pulled: &'a mut usize,
                                    calls: usize,
                                    panic_at: usize,
                                    fired: &'a mut bool,
                                }
                                impl<'a, V> Iterator for Src<'a, V> {
                                    type Item = V;
                                    fn next(&mut self) -> Option<V> {
                                        self.calls += 1;
                                        if self.panic_at != 0 && self.calls == self.panic_at && !std::thread::panicking() {
                                            *self.fired = true;
                                            tok::note(EV_INJECT, 5000 + self.calls as u64);
                                            std::panic::panic_any(Injected);
                                        }
                                        let x = self.buf.pop_front()?;
                                        *self.pulled += 1;
                                        Some(x)
                                    }
                                }
                                impl<'a, V> std::ops::Drop for Src<'a, V> {
                                    fn drop(&mut self) {
                                        while let Some(x) = self.buf.pop_front() {
                                            self.back.push(x);
                                        }
                                    }
                                }
                                let mut buf: VecDeque<<$K as Kind<X>>::V> = VecDeque::new();
                                buf.push_back(v);
                                for o in operands.drain(..) {
                                    buf.push_back(o);
                                }
                                let src = Src { buf, back: unpulled, pulled, calls: 0, panic_at: src_panic, fired: src_fired };
                                if mode == 7 {
                                    Out::V(<$K as Kind<X>>::v_sum_of(src))
                                } else {
                                    Out::V(<$K as Kind<X>>::v_product_of(src))
                                }
                            }
                            9 => Out::X(<$K as Kind<X>>::v_elem_sum(v)),
                            10 => Out::X(<$K as Kind<X>>::v_elem_product(v)),
                            11 => {
                                *kept_b = Some(v);
                                Out::V((ro.as_ref().unwrap().ref_add_val)(kept_b.as_ref().unwrap(), operands.pop().unwrap()))
                            }
                            _ => {
                                *kept_b = Some(v);
                                *kept_w = operands.pop();
                                Out::V((ro.as_ref().unwrap().ref_add_ref)(kept_b.as_ref().unwrap(), kept_w.as_ref().unwrap()))
                            }
                        }
                    })
                };
                let fresh = tok::fresh_in_op();
                let (_calls, afired, log) = crate::arith::take();
                let fired = afired || zfired || src_fired;
                if fired {
                    self.st.fault_fired[F_ARITH_PANIC] += 1;
                    self.st.probes[P_ARITH_PANIC_FIRED] += 1;
                }
                if mode == 7 || mode == 8 {
                    self.st.probes[P_ARITH_SUM_SOURCE] += 1;
                }
                if tok::has_violation() {
                    // the ledger already objected (double drop, touch of a dead element, ...)
                    match r {
                        Ok(Out::V(x)) => std::mem::forget(x),
                        Ok(Out::X(x)) => std::mem::forget(x),
                        _ => {}
                    }
                    std::mem::forget(kept_v);
                    std::mem::forget(kept_w);
                    std::mem::forget(kept_b);
                    std::mem::forget(unpulled);
                    self.model.clear();
                    return true;
                }
                // the zero()/one() accumulator of Sum / Product: fresh elements, one per lane, in creation order
                // (in which order an implementation creates them is its own business: the lane of such an
                // element is learned from the first call that combines it with an element of a known lane)
                let fresh_defaults: Vec<u32> = fresh.iter().copied().filter(|id| tok::origin_of(*id) == Some(Origin::Default)).collect();
                // --- ownership law of the calls, whatever the shape of the computation: every call is
                // handed values that are alive and distinct, and of one lane; the value it returns stays
                // alive, its other by-value operands are gone
                let mut alive: std::collections::BTreeSet<u32> = lane_of.keys().copied().chain(fresh_defaults.iter().copied()).collect();
                let mut bad: Option<String> = None;
                for (ci, c) in log.iter().enumerate() {
                    let last = ci + 1 == log.len() && afired;
                    let args: Vec<u32> = c.args.iter().copied().filter(|&a| a != crate::arith::NONE).collect();
                    let mut lane: Option<usize> = None;
                    for (ai, a) in args.iter().enumerate() {
                        if !alive.contains(a) {
                            bad = Some(format!("call {}: the element's operator was handed id {} which is not one of the operands or had already been consumed by an earlier call", ci + 1, a));
                            break;
                        }
                        if args[..ai].contains(a) {
                            bad = Some(format!("call {}: the same element (id {}) was handed in twice", ci + 1, a));
                            break;
                        }
                        let l = lane_of.get(a).copied();
                        if l.is_none() {
                            // a zero() / one() element that no call has placed yet
                            continue;
                        }
                        if lane.is_some() && !matches!(mode, 9 | 10) && l != lane {
                            bad = Some(format!("call {}: id {} belongs to lane {:?}, the other operand to lane {:?}", ci + 1, a, l, lane));
                            break;
                        }
                        lane = l;
                    }
                    if bad.is_some() {
                        break;
                    }
                    if let Some(l) = lane {
                        for a in args.iter() {
                            lane_of.entry(*a).or_insert(l);
                        }
                    }
                    for (ai, a) in args.iter().enumerate() {
                        let borrowed = c.borrowed & (1 << ai) != 0;
                        if !borrowed && (last || *a != c.kept) {
                            alive.remove(a);
                        }
                    }
                    if !last && c.kept != crate::arith::NONE && !args.contains(&c.kept) {
                        // the call made a new value (`&a + &b`): it is alive and belongs to the operands' lane
                        alive.insert(c.kept);
                        if let Some(l) = lane {
                            lane_of.insert(c.kept, l);
                        }
                    }
                }
                if let Some(b) = bad {
                    tok::raise(V5_ORDER, format!("{} on a {}: {}", what, <$K as Kind<X>>::NAME, b));
                    match r {
                        Ok(Out::V(x)) => std::mem::forget(x),
                        Ok(Out::X(x)) => std::mem::forget(x),
                        _ => {}
                    }
                    std::mem::forget(kept_v);
                    std::mem::forget(kept_w);
                    std::mem::forget(kept_b);
                    std::mem::forget(unpulled);
                    self.model.clear();
                    return true;
                }
                // vectors the source never handed out stay with the harness and are destroyed by it
                let n_unpulled = unpulled.len();
                let mut everything: Vec<Grp> = mine.clone();
                for grps in og.iter() {
                    everything.extend(grps.iter().copied());
                }
                let fresh_grps: Vec<Grp> = fresh.iter().map(|id| Grp::one(*id)).collect();
                let mut back_with_harness: Vec<Grp> = Vec::new();
                if n_unpulled > 0 {
                    // the source is [v, operands...]; the last n_unpulled of them came back
                    let all_src: Vec<&Vec<Grp>> = std::iter::once(&mine).chain(og.iter()).collect();
                    for grps in all_src[all_src.len() - n_unpulled..].iter() {
                        back_with_harness.extend(grps.iter().copied());
                    }
                    for g in back_with_harness.iter() {
                        for id in g.iter() {
                            if tok::state_of(id) != Some(St::Live) {
                                tok::raise(V8_UNEXPECTED_DROP, format!("{}: id {} belongs to a vector the source never handed out, yet it was destroyed", what, id));
                            }
                        }
                    }
                    let _ = guard_nopanic("drop of the vectors the source kept", m(OWN_DOOMED) | m(OWN_MAIN), 0, move || drop(unpulled));
                } else {
                    drop(unpulled);
                }
                match r {
                    Ok(Out::V(res)) => {
                        // the result: position i holds values of lane i which the calls left alive
                        let mut newmodel: Vec<Grp> = Vec::with_capacity(n);
                        let mut ok = true;
                        for i in 0..n {
                            let g = <$K as Kind<X>>::v_field(&res, i).grp();
                            for (j, id) in g.iter().enumerate() {
                                let lane = lane_of.get(&id).copied();
                                // (a zero() / one() element that never met an operand has no lane of its own)
                                let lane_ok = lane == Some(i * X::W + j) || (lane.is_none() && fresh_defaults.contains(&id));
                                if !lane_ok || !alive.contains(&id) || tok::state_of(id) != Some(St::Live) {
                                    tok::raise(V5_ORDER, format!("{} on a {}: position {} of the result holds id {} (lane {:?}, {}), which is not the value the element's operator returned for that lane", what, <$K as Kind<X>>::NAME, i, id, lane, if alive.contains(&id) { "alive" } else { "consumed" }));
                                    ok = false;
                                    break;
                                }
                            }
                            if !ok {
                                break;
                            }
                            newmodel.push(g);
                        }
                        if !ok {
                            std::mem::forget(res);
                            std::mem::forget(kept_w);
                            self.model.clear();
                            return true;
                        }
                        // every operand lane was handed to the operator: nothing bypassed it
                        let want_calls = match mode {
                            5 => n * X::W,
                            7 | 8 => (1 + extra - n_unpulled) * n * X::W,
                            _ => n * X::W,
                        };
                        let real_calls = log.iter().filter(|c| !(c.borrowed == 0b1 && c.args[1] == crate::arith::NONE)).count();
                        if real_calls != want_calls {
                            tok::raise(V5_ORDER, format!("{} on a {}: the element's operator was called {} times, {} lanes were to be combined", what, <$K as Kind<X>>::NAME, real_calls, want_calls));
                        }
                        for g in newmodel.iter() {
                            g.set_owner(OWN_MAIN);
                        }
                        self.model = newmodel;
                        self.form = Form::V(res);
                        // the borrowed operand is intact and is destroyed by the harness now
                        if let Some(w) = kept_w.take() {
                            for i in 0..n {
                                if <$K as Kind<X>>::v_field(&w, i).grp() != og[0][i] {
                                    tok::raise(V5_ORDER, format!("{}: the borrowed operand changed at position {}", what, i));
                                }
                            }
                            let _ = guard_nopanic("drop of the borrowed operand", m(OWN_DOOMED), 0, move || drop(w));
                        }
                        if let Some(b) = kept_b.take() {
                            for i in 0..n {
                                if <$K as Kind<X>>::v_field(&b, i).grp() != mine[i] {
                                    tok::raise(V5_ORDER, format!("{}: the borrowed left operand changed at position {}", what, i));
                                }
                            }
                            for g in mine.iter() {
                                g.set_owner(OWN_DOOMED);
                            }
                            let _ = guard_nopanic("drop of the borrowed left operand", m(OWN_DOOMED), 0, move || drop(b));
                        }
                        let survivors: Vec<u32> = self.model.iter().flat_map(|g| g.iter().collect::<Vec<u32>>()).collect();
                        let doomed: Vec<Grp> = everything.iter().chain(fresh_grps.iter()).copied().filter(|g| !g.iter().any(|id| survivors.contains(&id))).collect();
                        self.settle_doomed(&doomed, false, what);
                    }
                    Ok(Out::X(x)) => {
                        let g = x.grp();
                        let real_calls = log.len();
                        if real_calls != (n - 1) * X::W {
                            tok::raise(V5_ORDER, format!("{} on a {}: the element's operator was called {} times for {} elements", what, <$K as Kind<X>>::NAME, real_calls, n));
                        }
                        for id in g.iter() {
                            if !alive.contains(&id) || tok::state_of(id) != Some(St::Live) {
                                tok::raise(V5_ORDER, format!("{} on a {}: the result (id {}) is not a value the element's operator left alive", what, <$K as Kind<X>>::NAME, id));
                            }
                        }
                        if alive.len() != X::W {
                            tok::raise(V7_LEAK, format!("{} on a {}: {} values were never handed to the element's operator", what, <$K as Kind<X>>::NAME, alive.len().saturating_sub(X::W)));
                        }
                        if tok::has_violation() {
                            std::mem::forget(x);
                        } else {
                            let _ = guard_nopanic("drop of the reduced value", m(OWN_DOOMED) | m(OWN_MAIN), 0, move || drop(x));
                            self.settle_doomed(&everything, false, what);
                        }
                        self.model.clear();
                    }
                    Ok(Out::Assigned) => {
                        let v = kept_v.take().unwrap();
                        let mut newmodel: Vec<Grp> = Vec::with_capacity(n);
                        for i in 0..n {
                            let g = <$K as Kind<X>>::v_field(&v, i).grp();
                            for (j, id) in g.iter().enumerate() {
                                if lane_of.get(&id).copied() != Some(i * X::W + j) || !alive.contains(&id) || tok::state_of(id) != Some(St::Live) {
                                    tok::raise(V5_ORDER, format!("{} on a {}: position {} holds id {}, which is not the value the element's operator left there", what, <$K as Kind<X>>::NAME, i, id));
                                }
                            }
                            newmodel.push(g);
                        }
                        if tok::has_violation() {
                            std::mem::forget(v);
                            self.model.clear();
                            return true;
                        }
                        if log.len() != n * X::W {
                            tok::raise(V5_ORDER, format!("{} on a {}: the element's operator was called {} times, {} lanes were to be combined", what, <$K as Kind<X>>::NAME, log.len(), n * X::W));
                        }
                        for g in newmodel.iter() {
                            g.set_owner(OWN_MAIN);
                        }
                        let survivors: Vec<u32> = newmodel.iter().flat_map(|g| g.iter().collect::<Vec<u32>>()).collect();
                        let doomed: Vec<Grp> = everything.iter().copied().filter(|g| !g.iter().any(|id| survivors.contains(&id))).collect();
                        self.model = newmodel;
                        self.form = Form::V(v);
                        self.settle_doomed(&doomed, false, what);
                    }
                    Err(Thrown::Injected) if fired => {
                        // ordinary unwinding through user code (rule R-unwind b): nothing leaks, nothing is
                        // destroyed twice. What the harness still holds stays valid.
                        let mut still: Vec<u32> = back_with_harness.iter().flat_map(|g| g.iter().collect::<Vec<u32>>()).collect();
                        if let Some(w) = kept_w.take() {
                            for i in 0..n {
                                if <$K as Kind<X>>::v_field(&w, i).grp() != og[0][i] {
                                    tok::raise(V5_ORDER, format!("{}: the borrowed operand changed at position {}", what, i));
                                }
                                for id in og[0][i].iter() {
                                    if tok::state_of(id) != Some(St::Live) {
                                        tok::raise(V8_UNEXPECTED_DROP, format!("{}: id {} of the borrowed operand was destroyed", what, id));
                                    }
                                }
                            }
                            let _ = guard_nopanic("drop of the borrowed operand", m(OWN_DOOMED), 0, move || drop(w));
                        }
                        if let Some(b) = kept_b.take() {
                            for i in 0..n {
                                if <$K as Kind<X>>::v_field(&b, i).grp() != mine[i] {
                                    tok::raise(V5_ORDER, format!("{}: the borrowed left operand changed at position {}", what, i));
                                }
                                for id in mine[i].iter() {
                                    if tok::state_of(id) != Some(St::Live) {
                                        tok::raise(V8_UNEXPECTED_DROP, format!("{}: id {} of the borrowed left operand was destroyed", what, id));
                                    }
                                }
                            }
                            if !tok::has_violation() {
                                for g in mine.iter() {
                                    g.set_owner(OWN_DOOMED);
                                }
                                let _ = guard_nopanic("drop of the borrowed left operand", m(OWN_DOOMED), 0, move || drop(b));
                            } else {
                                std::mem::forget(b);
                            }
                        }
                        if let Some(v) = kept_v.take() {
                            // v += w was cut short: v is still a vector of live values, one per lane
                            self.st.probes[P_ARITH_ASSIGN_PANIC_CONTINUES] += 1;
                            let mut newmodel: Vec<Grp> = Vec::with_capacity(n);
                            for i in 0..n {
                                let g = <$K as Kind<X>>::v_field(&v, i).grp();
                                for (j, id) in g.iter().enumerate() {
                                    if lane_of.get(&id).copied() != Some(i * X::W + j) || tok::state_of(id) != Some(St::Live) {
                                        tok::raise(V1_DOUBLE_DROP, format!("{} interrupted on a {}: position {} holds id {} which is {:?}: the vector the caller still owns contains a destroyed or foreign element", what, <$K as Kind<X>>::NAME, i, id, tok::state_of(id)));
                                    }
                                    still.push(id);
                                }
                                newmodel.push(g);
                            }
                            if tok::has_violation() {
                                std::mem::forget(v);
                                self.model.clear();
                                return true;
                            }
                            for g in newmodel.iter() {
                                g.set_owner(OWN_MAIN);
                            }
                            self.model = newmodel;
                            self.form = Form::V(v);
                        } else {
                            self.model.clear();
                        }
                        let doomed: Vec<Grp> = everything.iter().chain(fresh_grps.iter()).copied().filter(|g| !g.iter().any(|id| still.contains(&id))).collect();
                        self.settle_doomed(&doomed, false, what);
                    }
                    Err(t) => {
                        std::mem::forget(kept_v);
                        std::mem::forget(kept_w);
                        std::mem::forget(kept_b);
                        self.model.clear();
                        self.unexpected(what, t)
                    }
                }
                true
            }
            VClone => {
                let v = match &self.form {
                    Form::V(v) => v,
                    _ => return false,
                };
                self.st.probes[P_CONTAINER_CLONE] += 1;
                if op.f > 0 {
                    self.st.fault_cfg[F_OBSERVE_PANIC] += 1;
                }
                if op.a % 2 == 1 {
                    // w.clone_from(&v): w's old elements are destroyed exactly once, w ends up holding one
                    // fresh clone per element of v, in place; if an element's clone() panics, w is
                    // still a valid container (of old elements and/or clones) and nothing has leaked
                    self.st.probes[P_CLONE_FROM] += 1;
                    let (items, old) = Self::fresh_items(OWN_DOOMED);
                    self.st.elements_created += (n * X::W) as u64;
                    let mut w = <$K as Kind<X>>::v_from_arr(<$K as Kind<X>>::arr_from_vec(items));
                    let (r, fired) = {
                        let w = &mut w;
                        guard(m(OWN_DOOMED) | m(OWN_FRESH), m(OWN_MAIN), plan_of(Cb::Observe, op.f), move || <$K as Kind<X>>::v_clone_from(w, v))
                    };
                    let fresh = tok::fresh_in_op();
                    match r {
                        Ok(()) => {
                            let mut ok = true;
                            for i in 0..n {
                                let g = <$K as Kind<X>>::v_field(&w, i).grp();
                                for (j, id) in g.iter().enumerate() {
                                    let src = self.model[i].ids[j];
                                    if !fresh.contains(&id) || tok::origin_of(id) != Some(Origin::Clone) || tok::val_of(id) != tok::val_of(src) {
                                        ok = false;
                                    }
                                }
                            }
                            if !ok {
                                tok::raise(V5_ORDER, format!("clone_from on a {}: the destination does not consist of one fresh clone per element of the source, in order", <$K as Kind<X>>::NAME));
                                std::mem::forget(w);
                                return true;
                            }
                            self.settle_doomed(&old, false, "clone_from (the destination's old elements)");
                        }
                        Err(Thrown::Injected) if fired => {
                            self.st.fault_fired[F_OBSERVE_PANIC] += 1;
                            self.st.probes[P_CLONE_PANIC_FIRED] += 1;
                        }
                        Err(t) => {
                            self.unexpected("clone_from on a vector", t);
                            std::mem::forget(w);
                            return true;
                        }
                    }
                    if tok::has_violation() {
                        std::mem::forget(w);
                        return true;
                    }
                    for id in &fresh {
                        if !tok::gone(*id) {
                            tok::set_owner(*id, OWN_CLONE);
                        }
                    }
                    let _ = guard_nopanic("drop of the clone_from destination", m(OWN_CLONE) | m(OWN_DOOMED), 0, move || drop(w));
                    for id in &fresh {
                        if !tok::gone(*id) {
                            tok::raise(V7_LEAK, format!("clone_from on a {}: fresh clone id {} was never destroyed", <$K as Kind<X>>::NAME, id));
                            return true;
                        }
                    }
                    self.settle_doomed(&old, false, "clone_from (the destination's old elements)");
                    self.check_form("clone_from");
                    return true;
                }
                // clone() touches the originals and creates fresh elements; if an element's clone
                // panics, the fresh ones made so far are destroyed by the unwinding
                let (r, fired) = guard(m(OWN_FRESH), m(OWN_MAIN), plan_of(Cb::Observe, op.f), || <$K as Kind<X>>::v_clone(v));
                let fresh = tok::fresh_in_op();
                match r {
                    Ok(c) => {
                        let mut ok = fresh.len() == n * X::W;
                        let mut k = 0usize;
                        for i in 0..n {
                            let g = <$K as Kind<X>>::v_field(&c, i).grp();
                            for (j, id) in g.iter().enumerate() {
                                let src = self.model[i].ids[j];
                                if fresh.get(k) .is_none() || !fresh.contains(&id) || tok::origin_of(id) != Some(Origin::Clone) || tok::val_of(id) != tok::val_of(src) {
                                    ok = false;
                                }
                                k += 1;
                            }
                        }
                        if !ok {
                            tok::raise(V5_ORDER, format!("clone of a {}: the copy does not consist of one fresh clone per element, in order ({} fresh elements)", <$K as Kind<X>>::NAME, fresh.len()));
                            std::mem::forget(c);
                            return true;
                        }
                        for id in &fresh {
                            tok::set_owner(*id, OWN_CLONE);
                        }
                        let _ = guard_nopanic("drop of the cloned container", m(OWN_CLONE), 0, move || drop(c));
                        for id in &fresh {
                            if !tok::gone(*id) {
                                tok::raise(V7_LEAK, format!("drop of a cloned {}: id {} was not dropped", <$K as Kind<X>>::NAME, id));
                                return true;
                            }
                        }
                    }
                    Err(Thrown::Injected) if fired => {
                        self.st.fault_fired[F_OBSERVE_PANIC] += 1;
                        self.st.probes[P_CLONE_PANIC_FIRED] += 1;
                        for id in &fresh {
                            if !tok::gone(*id) {
                                tok::raise(V7_LEAK, format!("clone of a {} unwound: fresh element id {} leaked", <$K as Kind<X>>::NAME, id));
                                return true;
                            }
                        }
                    }
                    Err(t) => self.unexpected("clone of a vector", t),
                }
                self.check_form("clone");
                true
            }
            VFromSlice => {
                let j = op.a as usize % (n + 3);
                let src: Vec<u32> = (0..j as u32).map(|i| 1000 + i).collect();
                if let Some(out) = guard_nopanic("from_slice", 0, 0, || <$K as Kind<X>>::from_slice_u32(&src)) {
                    self.st.probes[P_FROM_SLICE] += 1;
                    for i in 0..n {
                        let want = if i < j { src[i] } else { C32_DEFAULT };
                        if out.get(i).copied() != Some(want) {
                            tok::raise(V5_ORDER, format!("from_slice of {} elements into {}: position {} holds {:?}, expected {} ({})", j, <$K as Kind<X>>::NAME, i, out.get(i), want, if i < j { "the slice's element" } else { "T::default()" }));
                            break;
                        }
                    }
                }
                true
            }
            // ------------------------------------------------------------ iterator history
            Next | NextBack | Nth | NthBack => {
                let it = match &mut self.form {
                    Form::It(it) => it,
                    _ => return false,
                };
                let (s, e) = (self.front, n - self.back);
                self.st.cov[self.slot].mark_trans(s, e, op.k);
                let len = self.dq.len();
                let back = matches!(op.k, NextBack | NthBack);
                let k = if matches!(op.k, Nth | NthBack) { op.a as usize % (len + 2) } else { 0 };
                let skipped = k.min(len);
                let mut doomed: Vec<Grp> = Vec::with_capacity(skipped);
                for _ in 0..skipped {
                    let g = if back { self.dq.pop_back() } else { self.dq.pop_front() }.unwrap();
                    g.set_owner(OWN_DOOMED);
                    doomed.push(g);
                }
                let exp = if back { self.dq.pop_back() } else { self.dq.pop_front() };
                let pulled = skipped + exp.is_some() as usize;
                if back {
                    self.back += pulled;
                } else {
                    self.front += pulled;
                }
                let kind = op.k;
                let what = kind.name();
                let fplan = if matches!(kind, Nth | NthBack) { plan_of(Cb::Drop, op.f) } else { None };
                if fplan.is_some() {
                    self.st.fault_cfg[F_DROP_PANIC] += 1;
                    // if a skipped element's destructor panics, an implementation that had already
                    // taken the target out of the iterator destroys it during the unwinding (R-unwind a)
                    if let Some(g) = &exp {
                        g.set_owner(OWN_DOOMED);
                    }
                }
                let (r, fired) = guard(m(OWN_DOOMED), 0, fplan, || match kind {
                    Next => it.next(),
                    NextBack => it.next_back(),
                    Nth => it.nth(k),
                    _ => it.nth_back(k),
                });
                if fired {
                    self.st.fault_fired[F_DROP_PANIC] += 1;
                    self.st.probes[P_DROP_PANIC_FIRED] += 1;
                }
                let got = match r {
                    Ok(g) => g,
                    Err(Thrown::Injected) if fired => {
                        // R-unwind, destructor panic inside nth: undo the model's pops, then let the
                        // iterator say how far it got
                        if back {
                            self.back -= pulled;
                        } else {
                            self.front -= pulled;
                        }
                        let mut planned = doomed.clone();
                        if let Some(g) = exp {
                            planned.push(g);
                        }
                        let gone = planned.iter().take_while(|g| g.iter().any(|id| tok::state_of(id) == Some(St::Dropped))).count();
                        if self.reconcile_interrupted(&planned, back, len, gone, true, what) {
                            self.after_nth_panic = true;
                            self.check_len(what);
                            let (s2, e2) = self.cur_state();
                            self.st.cov[self.slot].mark(2, s2, e2);
                        }
                        return true;
                    }
                    Err(t) => {
                        self.unexpected(what, t);
                        return true;
                    }
                };
                self.settle_doomed(&doomed, false, what);
                if tok::has_violation() {
                    std::mem::forget(got);
                    return true;
                }
                self.take_yield(got, exp, op.b & 1 == 1, what);
                self.bagdrop_since_pull = false;
                if self.after_obs_panic {
                    self.st.probes[P_OBS_HISTORY_CONTINUES] += 1;
                    self.after_obs_panic = false;
                }
                if self.after_partial_take {
                    self.st.probes[P_TAKECOUNT_PARTIAL] += 1;
                    self.after_partial_take = false;
                }
                if self.after_nth_panic {
                    self.st.probes[P_NTH_DROP_PANIC] += 1;
                    self.after_nth_panic = false;
                }
                if self.after_adapt_panic {
                    self.st.probes[P_ADAPT_PANIC_CONTINUES] += 1;
                    self.after_adapt_panic = false;
                }
                self.check_len(what);
                let (s2, e2) = self.cur_state();
                self.st.cov[self.slot].mark(2, s2, e2);
                true
            }
            Len | SizeHint => {
                if !matches!(self.form, Form::It(_)) {
                    return false;
                }
                let (s, e) = self.cur_state();
                self.st.cov[self.slot].mark_trans(s, e, op.k);
                self.check_len(op.k.name());
                true
            }
            Observe => {
                let it = match &self.form {
                    Form::It(it) => it,
                    _ => return false,
                };
                let (s, e) = (self.front, n - self.back);
                self.st.cov[self.slot].mark(0, s, e);
                self.st.cov[self.slot].mark_trans(s, e, op.k);
                if self.dq.is_empty() {
                    self.st.probes[P_OBS_EXHAUSTED] += 1;
                }
                if self.front > 0 && self.back > 0 {
                    self.st.probes[P_OBS_BOTH_ENDS] += 1;
                }
                if self.bagdrop_since_pull {
                    self.st.probes[P_OBS_AFTER_BAGDROP] += 1;
                }
                if op.f > 0 {
                    self.st.fault_cfg[F_OBSERVE_PANIC] += 1;
                }
                let mut kind = op.a % 7;
                if (kind == 3 || kind == 4) && self.twin.is_none() {
                    kind = 2;
                }
                if kind == 3 || kind == 4 {
                    let (_, _, tf, tb) = self.twin.as_ref().unwrap();
                    if *tf == self.front && *tb == self.back {
                        self.st.probes[P_EQ_TWIN_SAME_STATE] += 1;
                    } else {
                        self.st.probes[P_EQ_TWIN_DIFFERENT_STATE] += 1;
                    }
                }
                let twin = self.twin.as_ref().map(|t| &t.0);
                if op.b > 0 && (kind == 0 || kind == 5 || kind == 6) {
                    self.st.fault_cfg[F_SINK] += 1;
                    set_sink_fail(op.b);
                }
                if op.b > 0 && kind == 1 {
                    self.st.fault_cfg[F_HASHER] += 1;
                    tok::set_hash_fail(op.b);
                }
                let touch = m(OWN_MAIN) | if kind == 3 || kind == 4 { m(OWN_TWIN) } else { 0 };
                let (r, fired) = guard(0, touch, plan_of(Cb::Observe, op.f), || match kind {
                    0 => {
                        use std::fmt::Write;
                        let mut w = NullWriter(0);
                        let _ = write!(w, "{:?}", it);
                    }
                    1 => {
                        let mut h = StubHasher::new();
                        it.hash(&mut h);
                        let _ = h.finish();
                    }
                    2 => {
                        let _ = it == it;
                    }
                    3 => {
                        let _ = it == twin.unwrap();
                    }
                    4 => {
                        let _ = twin.unwrap() != it;
                    }
                    5 => {
                        use std::fmt::Write;
                        let mut w = NullWriter(0);
                        let _ = write!(w, "{:#?}", it);
                    }
                    _ => {
                        // formatter flags a Debug impl might branch on: width, fill, alignment, precision, sign
                        use std::fmt::Write;
                        let mut w = NullWriter(0);
                        let _ = write!(w, "{:*>+14.2?}", it);
                    }
                });
                if fired {
                    self.st.fault_fired[F_OBSERVE_PANIC] += 1;
                    self.st.probes[P_OBS_PANIC_FIRED] += 1;
                    self.after_obs_panic = true;
                }
                if take_sink_fired() {
                    self.st.fault_fired[F_SINK] += 1;
                    self.after_obs_panic = true;
                }
                let hfired = tok::take_hash_fired();
                if hfired {
                    self.st.fault_fired[F_HASHER] += 1;
                    self.after_obs_panic = true;
                }
                match r {
                    Ok(()) => {}
                    Err(Thrown::Injected) if fired || hfired => {}
                    Err(t) => self.unexpected("observe", t),
                }
                self.check_len("observe");
                true
            }
            TakeCount | RevTakeDrop => {
                let it = match &mut self.form {
                    Form::It(it) => it,
                    _ => return false,
                };
                let (s, e) = (self.front, n - self.back);
                self.st.cov[self.slot].mark_trans(s, e, op.k);
                let len = self.dq.len();
                let k = op.a as usize % (len + 2);
                let p = k.min(len);
                let back = op.k == RevTakeDrop;
                let mut doomed: Vec<Grp> = Vec::with_capacity(p);
                for _ in 0..p {
                    let g = if back { self.dq.pop_back() } else { self.dq.pop_front() }.unwrap();
                    g.set_owner(OWN_DOOMED);
                    doomed.push(g);
                }
                if op.f > 0 {
                    self.st.fault_cfg[F_DROP_PANIC] += 1;
                }
                let (r, fired) = guard(m(OWN_DOOMED), 0, plan_of(Cb::Drop, op.f), || {
                    if back {
                        let mut c = 0usize;
                        it.by_ref().rev().take(k).for_each(|x| {
                            c += 1;
                            drop(x)
                        });
                        c
                    } else {
                        it.by_ref().take(k).count()
                    }
                });
                if fired {
                    self.st.fault_fired[F_DROP_PANIC] += 1;
                    self.st.probes[P_DROP_PANIC_FIRED] += 1;
                }
                match r {
                    Ok(c) => {
                        if c != p {
                            tok::raise(V6_LENGTH, format!("{} consumed {} elements, model says {}", op.k.name(), c, p));
                            return true;
                        }
                        self.settle_doomed(&doomed, false, op.k.name());
                        if back {
                            self.back += p;
                        } else {
                            self.front += p;
                        }
                    }
                    Err(Thrown::Injected) if fired => {
                        // Narrow relaxation (R-unwind, destructor panic): the consumer unwound part-way.
                        // Every element is still in the iterator, or was yielded and then destroyed by
                        // the consumer; the one whose destructor panicked part-way (W>1) may be abandoned.
                        let gone = doomed.iter().take_while(|g| g.iter().any(|id| tok::state_of(id) == Some(St::Dropped))).count();
                        if !self.reconcile_interrupted(&doomed, back, len, gone, true, op.k.name()) {
                            return true;
                        }
                        self.after_partial_take = true;
                    }
                    Err(t) => {
                        self.unexpected(op.k.name(), t);
                        return true;
                    }
                }
                self.bagdrop_since_pull = false;
                self.check_len(op.k.name());
                let (s2, e2) = self.cur_state();
                self.st.cov[self.slot].mark(2, s2, e2);
                true
            }
            BagDrop => {
                if self.bag.is_empty() {
                    return false;
                }
                let i = op.a as usize % self.bag.len();
                let x = self.bag.swap_remove(i);
                Self::drop_bag_item(x);
                self.bagdrop_since_pull = true;
                true
            }
            SwapTwin => {
                let it = match &mut self.form {
                    Form::It(it) => it,
                    _ => return false,
                };
                let (t, tdq, tf, tb) = match &mut self.twin {
                    Some(x) => (&mut x.0, &mut x.1, &mut x.2, &mut x.3),
                    None => return false,
                };
                self.st.probes[P_SWAP_TWIN] += 1;
                // both iterator values change address and each old address now holds the other
                // iterator: an iterator that cached a pointer into itself reads the wrong elements
                std::mem::swap(it, t);
                std::mem::swap(&mut self.dq, tdq);
                std::mem::swap(&mut self.front, tf);
                std::mem::swap(&mut self.back, tb);
                for g in self.dq.iter() {
                    g.set_owner(OWN_MAIN);
                }
                for g in tdq.iter() {
                    g.set_owner(OWN_TWIN);
                }
                self.check_len("mem::swap with the twin iterator");
                true
            }
            TwinMake => {
                if !matches!(self.form, Form::It(_)) {
                    return false;
                }
                self.drop_twin();
                if tok::has_violation() {
                    return true;
                }
                let (items, grps) = Self::fresh_items_u(OWN_TWIN, self.uniform);
                self.st.elements_created += (n * X::W) as u64;
                let made = guard_nopanic("twin construction", 0, 0, move || <$K as Kind<X>>::v_into_iter(<$K as Kind<X>>::v_from_arr(<$K as Kind<X>>::arr_from_vec(items))));
                let mut t = match made {
                    Some(t) => t,
                    None => return true,
                };
                let mut dq: VecDeque<Grp> = grps.into_iter().collect();
                let f = op.a as usize % (n + 1);
                let b = op.b as usize % (n + 1 - f);
                for _ in 0..f {
                    let g = dq.pop_front().unwrap();
                    g.set_owner(OWN_DOOMED);
                    let r = guard_nopanic("twin next", m(OWN_DOOMED), 0, || drop(t.next()));
                    if r.is_none() {
                        std::mem::forget(t);
                        return true;
                    }
                }
                for _ in 0..b {
                    let g = dq.pop_back().unwrap();
                    g.set_owner(OWN_DOOMED);
                    let r = guard_nopanic("twin next_back", m(OWN_DOOMED), 0, || drop(t.next_back()));
                    if r.is_none() {
                        std::mem::forget(t);
                        return true;
                    }
                }
                self.twin = Some((t, dq, f, b));
                true
            }
            CloneProbe => {
                let it = match &self.form {
                    Form::It(it) => it,
                    _ => return false,
                };
                if op.a % 8 == 3 {
                    // Default probe: an iterator made by `Default` owns whatever it created; every
                    // such element must be yielded or destroyed like any other
                    if op.f > 0 {
                        self.st.fault_cfg[F_DEFAULT_PANIC] += 1;
                    }
                    let (r, dfired) = guard(m(OWN_FRESH), 0, plan_of(Cb::Default, op.f), || crate::probe::try_default_iter::<<$K as Kind<X>>::It>());
                    match r {
                        Err(Thrown::Injected) if dfired => {
                            self.st.fault_fired[F_DEFAULT_PANIC] += 1;
                            for id in tok::fresh_in_op() {
                                if !tok::gone(id) {
                                    tok::raise(V7_LEAK, format!("Default for the iterator unwound: default element id {} leaked", id));
                                    return true;
                                }
                            }
                        }
                        Ok(None) => {}
                        Ok(Some(mut d)) => {
                            self.st.probes[P_DEFAULT_PROBE_ACTIVE] += 1;
                            let fresh = tok::fresh_in_op();
                            for id in &fresh {
                                tok::set_owner(*id, OWN_CLONE);
                            }
                            let l = guard_nopanic("len of a default iterator", 0, 0, || d.len()).unwrap_or(0);
                            let mut yielded: Vec<X> = Vec::new();
                            let _ = guard_nopanic("draining a default iterator", 0, 0, || {
                                for x in d.by_ref() {
                                    yielded.push(x);
                                    if yielded.len() > n + 2 {
                                        break;
                                    }
                                }
                            });
                            if yielded.len() != l {
                                tok::raise(V6_LENGTH, format!("a default-constructed iterator reported len() = {} and yielded {} elements", l, yielded.len()));
                                std::mem::forget(yielded);
                                std::mem::forget(d);
                                return true;
                            }
                            let _ = guard_nopanic("drop of a default iterator", m(OWN_CLONE), 0, move || {
                                drop(d);
                                drop(yielded);
                            });
                            for id in fresh {
                                if !tok::gone(id) {
                                    tok::raise(V7_LEAK, format!("a default-constructed iterator created element id {} and neither yielded nor dropped it", id));
                                    break;
                                }
                            }
                        }
                        Err(t) => self.unexpected("Default for the iterator", t),
                    }
                    return true;
                }
                let sel = op.a % 8;
                if sel == 7 {
                    // mutable slice-view probe: `AsMut<[T]>` must show exactly the remaining elements;
                    // the probe reverses them in place, and the model follows
                    let it = match &mut self.form {
                        Form::It(it) => it,
                        _ => return false,
                    };
                    let (r, _) = guard(0, 0, None, || crate::probe::try_asmut_iter::<<$K as Kind<X>>::It>(it));
                    match r {
                        Ok(None) => {}
                        Ok(Some(pairs)) => {
                            self.st.probes[P_SLICE_PROBE_ACTIVE] += 1;
                            let want: Vec<u32> = self.dq.iter().map(|g| g.first()).collect();
                            for (id, val) in &pairs {
                                if !tok::check_read("as_mut() on the iterator", *id, *val) {
                                    return true;
                                }
                            }
                            let got: Vec<u32> = pairs.iter().map(|p| p.0).collect();
                            if got != want {
                                match got.iter().find(|id| !want.contains(id)) {
                                    Some(id) => tok::raise(V4_READ_AFTER_YIELD, format!("as_mut() on the iterator exposes id {} which it no longer holds", id)),
                                    None => tok::raise(V5_ORDER, format!("as_mut() on the iterator shows {:?}, the remaining elements are {:?}", got, want)),
                                }
                                return true;
                            }
                            let mut v: Vec<Grp> = self.dq.drain(..).collect();
                            v.reverse();
                            self.dq = v.into_iter().collect();
                        }
                        Err(t) => self.unexpected("as_mut on the iterator", t),
                    }
                    return true;
                }
                if sel == 0 || sel == 4 {
                    // fall through to the clone probe below
                } else if sel == 1 {
                    // ordering probe: comparing the iterator with itself may only touch live elements
                    if op.f > 0 {
                        self.st.fault_cfg[F_OBSERVE_PANIC] += 1;
                    }
                    let (r, ofired) = guard(0, m(OWN_MAIN), plan_of(Cb::Observe, op.f), || crate::probe::try_cmp_iter::<<$K as Kind<X>>::It>(it));
                    match r {
                        Err(Thrown::Injected) if ofired => {
                            self.st.fault_fired[F_OBSERVE_PANIC] += 1;
                        }
                        Ok(None) => {}
                        Ok(Some(_)) => self.st.probes[P_ORD_PROBE_ACTIVE] += 1,
                        Err(t) => self.unexpected("partial_cmp on the iterator", t),
                    }
                    self.check_len("partial_cmp probe");
                    return true;
                }
                if sel == 2 || sel == 5 || sel == 6 {
                    // slice-view probe: an `AsRef<[T]>` view of the iterator must show exactly the
                    // remaining elements, in order
                    let (r, _) = guard(0, 0, None, || match sel {
                        2 => crate::probe::try_slice_iter::<<$K as Kind<X>>::It>(it),
                        5 => crate::probe::try_view_iter::<<$K as Kind<X>>::It>(it, 1),
                        _ => crate::probe::try_view_iter::<<$K as Kind<X>>::It>(it, 2),
                    });
                    match r {
                        Ok(None) => {}
                        Ok(Some(pairs)) => {
                            self.st.probes[P_SLICE_PROBE_ACTIVE] += 1;
                            let want: Vec<u32> = self.dq.iter().map(|g| g.first()).collect();
                            for (id, val) in &pairs {
                                if !tok::check_read("as_ref() on the iterator", *id, *val) {
                                    return true;
                                }
                            }
                            let got: Vec<u32> = pairs.iter().map(|p| p.0).collect();
                            if got != want {
                                let stale = got.iter().find(|id| !want.contains(id));
                                match stale {
                                    Some(id) => tok::raise(V4_READ_AFTER_YIELD, format!("as_ref() on the iterator exposes id {} which it no longer holds", id)),
                                    None => tok::raise(V5_ORDER, format!("as_ref() on the iterator shows {:?}, the remaining elements are {:?}", got, want)),
                                }
                            }
                        }
                        Err(t) => self.unexpected("as_ref on the iterator", t),
                    }
                    return true;
                }
                // a panic inside an element's clone() (fault kind F3): the half-built clone is destroyed
                // by the unwinding; it may destroy only the clones it made, never the original's elements
                if op.f > 0 {
                    self.st.fault_cfg[F_OBSERVE_PANIC] += 1;
                }
                let cloned = guard(m(OWN_FRESH), m(OWN_MAIN), plan_of(Cb::Observe, op.f), || crate::probe::try_clone_iter::<<$K as Kind<X>>::It>(it));
                let cfired = cloned.1;
                match cloned.0 {
                    Err(Thrown::Injected) if cfired => {
                        self.st.fault_fired[F_OBSERVE_PANIC] += 1;
                        self.st.probes[P_CLONE_PANIC_FIRED] += 1;
                        for id in tok::fresh_in_op() {
                            if !tok::gone(id) {
                                tok::raise(V7_LEAK, format!("clone of the iterator unwound: fresh clone id {} leaked", id));
                                return true;
                            }
                        }
                        self.check_len("clone probe (unwound)");
                    }
                    Ok(None) => {}
                    Ok(Some(c)) => {
                        self.st.probes[P_CLONE_PROBE_ACTIVE] += 1;
                        // the clone owns the fresh copies made during the clone; dropping it must
                        // destroy exactly as many elements as the original has live
                        let fresh = tok::fresh_in_op();
                        for id in &fresh {
                            tok::set_owner(*id, OWN_CLONE);
                        }
                        let live = self.dq.len() * X::W;
                        if fresh.len() != live {
                            tok::raise(V4_READ_AFTER_YIELD, format!("clone of the iterator copied {} elements, {} are live", fresh.len(), live));
                        }
                        let _ = guard_nopanic("drop of the cloned iterator", m(OWN_CLONE), 0, move || drop(c));
                        for id in fresh {
                            if tok::state_of(id) == Some(St::Live) {
                                tok::raise(V7_LEAK, format!("cloned iterator leaked id {}", id));
                                break;
                            }
                        }
                    }
                    Err(t) => self.unexpected("clone of the iterator", t),
                }
                true
            }
            ItCollect => {
                let it = match std::mem::replace(&mut self.form, Form::Gone) {
                    Form::It(it) => it,
                    other => {
                        self.form = other;
                        return false;
                    }
                };
                let (s, e) = self.cur_state();
                self.st.cov[self.slot].mark_trans(s, e, op.k);
                let mode = op.a % 3;
                let len = self.dq.len();
                let k = if mode == 2 { op.b as usize % (len + 2) } else { 0 };
                let mut live: Vec<Grp> = self.dq.drain(..).collect();
                let mut doomed: Vec<Grp> = Vec::new();
                if mode == 1 {
                    live.reverse();
                }
                if mode == 2 {
                    let kk = k.min(live.len());
                    doomed = live.drain(..kk).collect();
                    for g in &doomed {
                        g.set_owner(OWN_DOOMED);
                    }
                }
                if op.f > 0 {
                    self.st.fault_cfg[F_DEFAULT_PANIC] += 1;
                }
                let relaxed = op.f > 0;
                let allow = m(OWN_FRESH) | m(OWN_DOOMED) | if relaxed { m(OWN_MAIN) } else { 0 };
                let (r, fired) = guard(allow, 0, plan_of(Cb::Default, op.f), move || match mode {
                    0 => <$K as Kind<X>>::v_from_iter(it),
                    1 => <$K as Kind<X>>::v_from_iter(it.rev()),
                    _ => <$K as Kind<X>>::v_from_iter(it.skip(k)),
                });
                match r {
                    Ok(v) => {
                        self.settle_doomed(&doomed, false, "skip(k).collect()");
                        if tok::has_violation() {
                            std::mem::forget(v);
                            return true;
                        }
                        self.settle_from_iter(v, &live, "collect");
                        self.chain += 1;
                    }
                    Err(Thrown::Injected) if fired => {
                        self.st.fault_fired[F_DEFAULT_PANIC] += 1;
                        self.st.probes[P_DEFAULT_PANIC_FIRED] += 1;
                        let mut all = live;
                        all.extend(doomed);
                        self.settle_unwound(&all, "collect");
                    }
                    Err(t) => self.unexpected("collect", t),
                }
                true
            }
            Exhaust => {
                let it = match &mut self.form {
                    Form::It(it) => it,
                    _ => return false,
                };
                let (s, e) = (self.front, n - self.back);
                self.st.cov[self.slot].mark_trans(s, e, op.k);
                let mut out: Vec<X> = Vec::new();
                let len = self.dq.len();
                let planned: Vec<Grp> = self.dq.drain(..).collect();
                if op.f > 0 {
                    self.st.fault_cfg[F_CLOSURE_PANIC] += 1;
                    for g in &planned {
                        g.set_owner(OWN_DOOMED);
                    }
                }
                let mut w = Watch::new(op.f);
                let (r, _) = {
                    let (w, out) = (&mut w, &mut out);
                    guard(if op.f > 0 { m(OWN_DOOMED) } else { 0 }, 0, None, move || {
                        for x in it.by_ref() {
                            w.hit(x.grp()); // the loop body: may panic while it owns x
                            out.push(x);
                        }
                    })
                };
                match r {
                    Ok(()) => {
                        if op.f > 0 {
                            for g in &planned {
                                g.set_owner(OWN_MAIN);
                            }
                        }
                        self.front += planned.len();
                        self.settle_sequence(out, planned, true, "for-loop over the iterator");
                    }
                    Err(Thrown::Injected) if w.fired => {
                        self.st.fault_fired[F_CLOSURE_PANIC] += 1;
                        self.st.probes[P_CLOSURE_PANIC_FIRED] += 1;
                        self.st.probes[P_LOOP_BODY_PANIC] += 1;
                        // the elements of completed iterations belong to the caller now
                        for (i, x) in out.iter().enumerate() {
                            let g = x.grp();
                            if planned.get(i) != Some(&g) {
                                tok::raise(V5_ORDER, "for-loop: elements were not yielded in order".to_string());
                                std::mem::forget(out);
                                return true;
                            }
                            g.set_owner(OWN_BAG);
                        }
                        self.bag.extend(out);
                        let gone = w.calls;
                        if self.reconcile_interrupted(&planned, false, len, gone, false, "for-loop whose body panicked") {
                            self.after_adapt_panic = true;
                        }
                    }
                    Err(Thrown::Injected) => {
                        std::mem::forget(out);
                    }
                    Err(t) => {
                        std::mem::forget(out);
                        self.unexpected("for x in it.by_ref()", t);
                    }
                }
                self.check_len("exhaust");
                let (s2, e2) = self.cur_state();
                self.st.cov[self.slot].mark(2, s2, e2);
                true
            }
            // ------------------------------------------------------------ nested (rows of a matrix)
            NextIntoInner => {
                if X::W == 1 {
                    return false;
                }
                let it = match &mut self.form {
                    Form::It(it) => it,
                    _ => return false,
                };
                let (s, e) = (self.front, n - self.back);
                self.st.cov[self.slot].mark_trans(s, e, op.k);
                let exp = self.dq.pop_front();
                if exp.is_some() {
                    self.front += 1;
                }
                let got = match guard_nopanic("next", 0, 0, || it.next()) {
                    Some(g) => g,
                    None => return true,
                };
                match (got, exp) {
                    (Some(x), Some(g)) => {
                        let gg = x.grp();
                        if gg != g {
                            tok::raise(V5_ORDER, format!("next yielded ids {:?}, model says {:?}", &gg.ids[..gg.n as usize], &g.ids[..g.n as usize]));
                            std::mem::forget(x);
                            return true;
                        }
                        self.drop_inner();
                        if tok::has_violation() {
                            std::mem::forget(x);
                            return true;
                        }
                        g.set_owner(OWN_INNER);
                        match guard_nopanic("inner into_iter", 0, 0, move || x.into_inner()) {
                            Some(Ok(inner)) => self.inner = Some((inner, g.iter().collect())),
                            Some(Err(x)) => std::mem::forget(x),
                            None => {}
                        }
                    }
                    (g, e) => self.take_yield(g, e, false, "next"),
                }
                self.check_len("next");
                let (s2, e2) = self.cur_state();
                self.st.cov[self.slot].mark(2, s2, e2);
                true
            }
            InnerNext | InnerNextBack => {
                let (it, dq) = match &mut self.inner {
                    Some(p) => p,
                    None => return false,
                };
                let back = op.k == InnerNextBack;
                let exp = if back { dq.pop_back() } else { dq.pop_front() };
                if let Some(id) = exp {
                    tok::set_owner(id, OWN_DOOMED);
                }
                let got = match guard_nopanic("inner next", 0, 0, || if back { it.next_back() } else { it.next() }) {
                    Some(g) => g,
                    None => return true,
                };
                let want = dq.len();
                match (got, exp) {
                    (Some(t), Some(id)) => {
                        if t.lid() != id {
                            tok::raise(V5_ORDER, format!("inner iterator yielded id {}, model says {}", t.lid(), id));
                            std::mem::forget(t);
                            return true;
                        }
                        let _ = guard_nopanic("drop of an element yielded by the inner iterator", m(OWN_DOOMED), 0, move || drop(t));
                    }
                    (None, None) => {}
                    (Some(t), None) => {
                        tok::raise(V6_LENGTH, "inner iterator yielded an element although none remains".to_string());
                        std::mem::forget(t);
                    }
                    (None, Some(id)) => tok::raise(V6_LENGTH, format!("inner iterator returned None although id {} remains", id)),
                }
                if let Some(l) = guard_nopanic("inner len", 0, 0, || it.len()) {
                    if l != want {
                        tok::raise(V6_LENGTH, format!("inner iterator: len() = {} but {} remain", l, want));
                    }
                }
                true
            }
            InnerObserve => {
                let (it, _) = match &self.inner {
                    Some(p) => p,
                    None => return false,
                };
                self.st.probes[P_NESTED_INNER_OBSERVE] += 1;
                if op.f > 0 {
                    self.st.fault_cfg[F_OBSERVE_PANIC] += 1;
                }
                let kind = op.a % 3;
                let (r, fired) = guard(0, m(OWN_INNER), plan_of(Cb::Observe, op.f), || match kind {
                    0 => {
                        use std::fmt::Write;
                        let mut w = NullWriter(0);
                        let _ = write!(w, "{:?}", it);
                    }
                    1 => {
                        let mut h = StubHasher::new();
                        it.hash(&mut h);
                    }
                    _ => {
                        let _ = it == it;
                    }
                });
                if fired {
                    self.st.fault_fired[F_OBSERVE_PANIC] += 1;
                    self.st.probes[P_OBS_PANIC_FIRED] += 1;
                }
                match r {
                    Ok(()) => {}
                    Err(Thrown::Injected) if fired => {}
                    Err(t) => self.unexpected("observe on the inner iterator", t),
                }
                true
            }
            InnerDrop => {
                if self.inner.is_none() {
                    return false;
                }
                self.drop_inner();
                true
            }
            // ------------------------------------------------------------ terminals
            Drop => {
                if matches!(self.form, Form::Gone) {
                    return false;
                }
                if let Form::It(_) = self.form {
                    let (s, e) = self.cur_state();
                    self.st.cov[self.slot].mark_trans(s, e, op.k);
                }
                self.drop_form(op.f, "drop");
                true
            }
            Forget => {
                if matches!(self.form, Form::Gone) {
                    return false;
                }
                if let Form::It(_) = self.form {
                    let (s, e) = self.cur_state();
                    self.st.cov[self.slot].mark_trans(s, e, op.k);
                }
                self.forget_form();
                true
            }
            Last | Count => {
                let it = match std::mem::replace(&mut self.form, Form::Gone) {
                    Form::It(it) => it,
                    other => {
                        self.form = other;
                        return false;
                    }
                };
                let (s, e) = self.cur_state();
                self.st.cov[self.slot].mark_trans(s, e, op.k);
                self.st.cov[self.slot].mark(1, s, e);
                let mut all: Vec<Grp> = self.dq.drain(..).collect();
                let len = all.len();
                let last = if op.k == Last { all.pop() } else { None };
                for g in &all {
                    g.set_owner(OWN_DOOMED);
                }
                if op.f > 0 {
                    // if a destructor panics inside last(), the element that would have been
                    // returned is destroyed during the unwinding
                    if let Some(g) = &last {
                        g.set_owner(OWN_DOOMED);
                    }
                }
                if op.f > 0 {
                    self.st.fault_cfg[F_DROP_PANIC] += 1;
                }
                let islast = op.k == Last;
                let (r, fired) = guard(m(OWN_DOOMED), 0, plan_of(Cb::Drop, op.f), move || if islast { (it.last(), 0usize) } else { (None, it.count()) });
                if fired {
                    self.st.fault_fired[F_DROP_PANIC] += 1;
                    self.st.probes[P_DROP_PANIC_FIRED] += 1;
                }
                match r {
                    Ok((got, c)) => {
                        if islast {
                            self.settle_doomed(&all, false, "last");
                            if tok::has_violation() {
                                std::mem::forget(got);
                                return true;
                            }
                            self.take_yield(got, last, op.b & 1 == 1, "last");
                        } else {
                            if c != len {
                                tok::raise(V6_LENGTH, format!("count() = {} but {} elements remained", c, len));
                                return true;
                            }
                            self.settle_doomed(&all, false, "count");
                        }
                    }
                    Err(Thrown::Injected) if fired => {
                        // R-unwind, destructor panic: the iterator was consumed by value and is gone;
                        // what nobody destroyed is abandoned, nothing may be destroyed twice
                        if let Some(g) = last {
                            g.set_owner(OWN_DOOMED);
                            all.push(g);
                        }
                        self.settle_doomed(&all, true, op.k.name());
                    }
                    Err(t) => self.unexpected(op.k.name(), t),
                }
                true
            }
            Fold | Rfold => {
                let it = match std::mem::replace(&mut self.form, Form::Gone) {
                    Form::It(it) => it,
                    other => {
                        self.form = other;
                        return false;
                    }
                };
                let (s, e) = self.cur_state();
                self.st.cov[self.slot].mark_trans(s, e, op.k);
                self.st.cov[self.slot].mark(1, s, e);
                let mut exp: Vec<Grp> = self.dq.drain(..).collect();
                let back = op.k == Rfold;
                if back {
                    exp.reverse();
                }
                if op.f > 0 {
                    self.st.fault_cfg[F_CLOSURE_PANIC] += 1;
                    for g in &exp {
                        g.set_owner(OWN_DOOMED);
                    }
                }
                let mut w = Watch::new(op.f);
                let (r, _) = {
                    let w = &mut w;
                    guard(if op.f > 0 { m(OWN_DOOMED) } else { 0 }, 0, None, move || {
                        let f = |mut acc: Vec<X>, x: X| {
                            w.hit(x.grp());
                            acc.push(x);
                            acc
                        };
                        if back {
                            it.rfold(Vec::new(), f)
                        } else {
                            it.fold(Vec::new(), f)
                        }
                    })
                };
                match r {
                    Ok(out) => {
                        if op.f > 0 {
                            for g in &exp {
                                g.set_owner(OWN_MAIN);
                            }
                        }
                        self.settle_sequence(out, exp, op.b & 1 == 1, op.k.name());
                    }
                    Err(Thrown::Injected) if w.fired => {
                        self.st.fault_fired[F_CLOSURE_PANIC] += 1;
                        self.st.probes[P_CLOSURE_PANIC_FIRED] += 1;
                        self.st.probes[P_FOLD_CLOSURE_PANIC] += 1;
                        // R-unwind, closure panic: accumulator, the element in flight and the iterator
                        // itself are destroyed by the unwinding: each element exactly once, none left
                        if w.order[..] != exp[..w.order.len().min(exp.len())] {
                            tok::raise(V5_ORDER, format!("{}: the closure was not handed the remaining elements in order", op.k.name()));
                            return true;
                        }
                        self.settle_doomed(&exp, false, op.k.name());
                    }
                    Err(Thrown::Injected) => {} // the watch stopped an iterator that does not end; violation already recorded
                    Err(t) => self.unexpected(op.k.name(), t),
                }
                true
            }
            Adapt => self.adapt(op),
            Consume => self.consume(op),
            Fresh => {
                if !matches!(self.form, Form::Gone) {
                    return false;
                }
                self.start_fresh_arr();
                self.chain = 0;
                true
            }
            _ => false,
        }
    }

    /// One std-provided method on `it.by_ref()` (the iterator survives): see `ops::ADAPT_NAMES`.
    fn adapt(&mut self, op: Op) -> bool {
        let n = <$K as Kind<X>>::N;
        if !matches!(self.form, Form::It(_)) {
            return false;
        }
        let (s, e) = self.cur_state();
        self.st.cov[self.slot].mark_trans(s, e, op.k);
        let len = self.dq.len();
        let which = op.a % N_ADAPT;
        let k = (op.b & 0xff) as usize % (len + 2);
        let keep = (op.b >> 8) & 1 == 1;
        let back = adapt_back(which);
        let planned_n = adapt_planned(which, k, len);
        let what = ADAPT_NAMES[which as usize];
        self.st.adapt_counts[which as usize] += 1;
        let mut planned: Vec<Grp> = Vec::with_capacity(planned_n);
        for _ in 0..planned_n {
            let g = if back { self.dq.pop_back() } else { self.dq.pop_front() }.unwrap();
            g.set_owner(OWN_DOOMED);
            planned.push(g);
        }
        let has_cb = !matches!(which, 16 | 20 | 21 | 22);
        let f = if has_cb { op.f } else { 0 };
        if f > 0 {
            self.st.fault_cfg[F_CLOSURE_PANIC] += 1;
        }
        let mut w = Watch::new(f);
        let mut kept: Vec<X> = Vec::new();
        let mut res_idx: Option<Option<usize>> = None;
        let mut res_bool: Option<bool> = None;
        let mut res_count: Option<usize> = None;
        let (r, _) = {
            let it = match &mut self.form {
                Form::It(it) => it,
                _ => unreachable!(),
            };
            let (w, kept, res_idx, res_bool, res_count) = (&mut w, &mut kept, &mut res_idx, &mut res_bool, &mut res_count);
            guard(m(OWN_DOOMED), 0, None, move || match which {
                0 => kept.extend(it.by_ref().find(|x| w.hit(x.grp()) == k)),
                1 => kept.extend(it.by_ref().rfind(|x| w.hit(x.grp()) == k)),
                2 => *res_idx = Some(it.by_ref().position(|x| w.hit(x.grp()) == k)),
                3 => *res_idx = Some(it.by_ref().rposition(|x| w.hit(x.grp()) == k)),
                4 => *res_bool = Some(it.by_ref().any(|x| w.hit(x.grp()) == k)),
                5 => *res_bool = Some(it.by_ref().all(|x| w.hit(x.grp()) != k)),
                6 => {
                    if let Err(x) = it.by_ref().try_fold((), |(), x| if w.hit(x.grp()) == k { Err(x) } else { Ok(()) }) {
                        kept.push(x);
                    }
                }
                7 => {
                    if let Err(x) = it.by_ref().try_rfold((), |(), x| if w.hit(x.grp()) == k { Err(x) } else { Ok(()) }) {
                        kept.push(x);
                    }
                }
                8 => {
                    let _ = it.by_ref().try_for_each(|x| if w.hit(x.grp()) == k { Err(()) } else { Ok(()) });
                }
                9 => it.by_ref().take_while(|x| w.hit(x.grp()) < k).for_each(drop),
                10 => kept.extend(it.by_ref().skip_while(|x| w.hit(x.grp()) < k).next()),
                11 => it.by_ref().for_each(|x| {
                    w.hit(x.grp());
                }),
                12 => it.by_ref().rev().for_each(|x| {
                    w.hit(x.grp());
                }),
                13 => it.by_ref().zip(0..k).for_each(|(x, _)| {
                    w.hit(x.grp());
                }),
                14 => {
                    let (st, t) = adapt_step(k);
                    it.by_ref().step_by(st).take(t).for_each(|x| {
                        w.hit(x.grp());
                    })
                }
                15 => {
                    let mut p = it.by_ref().peekable();
                    if let Some(x) = p.peek() {
                        w.hit(x.grp());
                    }
                    drop(p);
                }
                16 => *kept = it.by_ref().collect::<Vec<X>>(),
                17 => kept.extend(it.by_ref().max_by_key(|x| w.hit(x.grp()))),
                18 => kept.extend(it.by_ref().min_by_key(|x| w.hit(x.grp()))),
                19 => kept.extend(it.by_ref().reduce(|a, b| {
                    w.hit(b.grp());
                    drop(a);
                    b
                })),
                20 => kept.extend(it.by_ref().rev().last()),
                21 => *res_count = Some(it.by_ref().count()),
                _ => kept.extend(it.by_ref().last()),
            })
        };
        // what the callbacks saw must be the consumed elements, in order
        let exact = adapt_exact(which);
        let mut pi = 0usize;
        let mut last_seen_pos = 0usize;
        for g in &w.order {
            while pi < planned.len() && planned[pi] != *g {
                if exact {
                    break;
                }
                pi += 1;
            }
            if pi >= planned.len() || planned[pi] != *g {
                let foreign = !planned.contains(g);
                tok::raise(
                    if foreign && g.iter().any(|id| tok::owner_of(id) == OWN_BAG || tok::state_of(id) != Some(St::Live)) { V4_READ_AFTER_YIELD } else { V5_ORDER },
                    format!("{}: the callback was shown ids {:?}, which is not the next element the iterator holds", what, &g.ids[..g.n as usize]),
                );
                std::mem::forget(kept);
                return true;
            }
            pi += 1;
            last_seen_pos = pi;
        }
        // elements handed back to the caller
        let mut ki = 0usize;
        let mut kept_grps: Vec<Grp> = Vec::new();
        for x in kept.iter() {
            let g = x.grp();
            while ki < planned.len() && planned[ki] != g {
                ki += 1;
            }
            if ki >= planned.len() {
                tok::raise(V5_ORDER, format!("{} returned ids {:?}, not among / not in the order of the elements it was to consume", what, &g.ids[..g.n as usize]));
                std::mem::forget(kept);
                return true;
            }
            ki += 1;
            kept_grps.push(g);
        }
        for g in &kept_grps {
            g.set_owner(OWN_BAG);
        }
        match r {
            Ok(()) => {
                // results
                let bad = match which {
                    0 | 1 | 6 | 7 | 10 => (kept_grps.len() == 1) != (k < len) || (k < len && kept_grps[0] != planned[k]),
                    2 => res_idx != Some(if k < len { Some(k) } else { None }),
                    3 => res_idx != Some(if k < len { Some(len - 1 - k) } else { None }),
                    4 => res_bool != Some(k < len),
                    5 => res_bool != Some(k >= len),
                    16 => kept_grps[..] != planned[..],
                    17 | 19 | 22 => kept_grps.len() != (len > 0) as usize || (len > 0 && kept_grps[0] != planned[len - 1]),
                    18 | 20 => kept_grps.len() != (len > 0) as usize || (len > 0 && kept_grps[0] != planned[if which == 18 { 0 } else { len - 1 }]),
                    21 => res_count != Some(len),
                    _ => false,
                };
                if bad {
                    tok::raise(V5_ORDER, format!("{} (k = {}, {} elements remaining) returned a result that does not match the remaining elements in order", what, k, len));
                    std::mem::forget(kept);
                    return true;
                }
                if exact && w.order.len() != planned_n {
                    tok::raise(V6_LENGTH, format!("{}: the callback saw {} elements, {} were to be consumed", what, w.order.len(), planned_n));
                    std::mem::forget(kept);
                    return true;
                }
                let rest: Vec<Grp> = planned.iter().filter(|g| !kept_grps.contains(g)).copied().collect();
                self.settle_doomed(&rest, false, what);
                if tok::has_violation() {
                    std::mem::forget(kept);
                    return true;
                }
                if back {
                    self.back += planned_n;
                } else {
                    self.front += planned_n;
                }
            }
            Err(Thrown::Injected) if w.fired => {
                self.st.fault_fired[F_CLOSURE_PANIC] += 1;
                self.st.probes[P_CLOSURE_PANIC_FIRED] += 1;
                // R-unwind, closure panic: the iterator survives; everything the callbacks were
                // shown has left it, nothing else may be lost
                // a callback that is shown the element by reference may have panicked while the
                // element was still (or again) inside the iterator: only what came before it is
                // known to have left
                let gone = if adapt_by_ref(which) { last_seen_pos.saturating_sub(1) } else { last_seen_pos };
                if !self.reconcile_interrupted(&planned, back, len, gone, false, what) {
                    std::mem::forget(kept);
                    return true;
                }
                self.after_adapt_panic = true;
            }
            Err(Thrown::Injected) => {
                std::mem::forget(kept);
                return true;
            }
            Err(t) => {
                std::mem::forget(kept);
                self.unexpected(what, t);
                return true;
            }
        }
        if keep {
            self.bag.extend(kept);
        } else {
            let _ = guard_nopanic("caller drops what the adaptor returned", m(OWN_BAG), 0, move || drop(kept));
        }
        self.bagdrop_since_pull = false;
        self.check_len(what);
        let (s2, e2) = self.cur_state();
        self.st.cov[self.slot].mark(2, s2, e2);
        let _ = n;
        true
    }

    /// One std-provided consuming method on the iterator by value: see `ops::CONSUME_NAMES`.
    fn consume(&mut self, op: Op) -> bool {
        let it = match std::mem::replace(&mut self.form, Form::Gone) {
            Form::It(it) => it,
            other => {
                self.form = other;
                return false;
            }
        };
        let (s, e) = self.cur_state();
        self.st.cov[self.slot].mark_trans(s, e, op.k);
        self.st.cov[self.slot].mark(1, s, e);
        let which = op.a % N_CONSUME;
        let what = CONSUME_NAMES[which as usize];
        self.st.consume_counts[which as usize] += 1;
        let mut exp: Vec<Grp> = self.dq.drain(..).collect();
        if which == 1 {
            exp.reverse();
        }
        let len = exp.len();
        for g in &exp {
            g.set_owner(OWN_DOOMED);
        }
        let f = if which == 5 { 0 } else { op.f };
        if f > 0 {
            self.st.fault_cfg[F_CLOSURE_PANIC] += 1;
        }
        let mut w = Watch::new(f);
        let mut kept: Vec<X> = Vec::new();
        let (r, _) = {
            let (w, kept) = (&mut w, &mut kept);
            guard(m(OWN_DOOMED), 0, None, move || match which {
                0 => it.for_each(|x| {
                    w.hit(x.grp());
                }),
                1 => it.rev().for_each(|x| {
                    w.hit(x.grp());
                }),
                2 => kept.extend(it.max_by_key(|x| w.hit(x.grp()))),
                3 => kept.extend(it.min_by_key(|x| w.hit(x.grp()))),
                4 => kept.extend(it.reduce(|a, b| {
                    w.hit(b.grp());
                    drop(a);
                    b
                })),
                _ => *kept = it.collect::<Vec<X>>(),
            })
        };
        let seen_ok = match which {
            4 => len == 0 || w.order[..] == exp[1..1 + w.order.len().min(len - 1)],
            5 => true,
            _ => w.order[..] == exp[..w.order.len().min(len)],
        };
        if !seen_ok || w.order.len() > len {
            tok::raise(V5_ORDER, format!("{}: the callback was not shown the remaining elements in order", what));
            std::mem::forget(kept);
            return true;
        }
        let kept_grps: Vec<Grp> = kept.iter().map(|x| x.grp()).collect();
        match r {
            Ok(()) => {
                let bad = match which {
                    0 | 1 => !kept_grps.is_empty() || w.order.len() != len,
                    2 | 4 => kept_grps.len() != (len > 0) as usize || (len > 0 && kept_grps[0] != exp[len - 1]),
                    3 => kept_grps.len() != (len > 0) as usize || (len > 0 && kept_grps[0] != exp[0]),
                    _ => kept_grps[..] != exp[..],
                };
                if bad {
                    tok::raise(V5_ORDER, format!("{} over {} remaining elements returned a result that does not match them in order", what, len));
                    std::mem::forget(kept);
                    return true;
                }
                for g in &kept_grps {
                    g.set_owner(OWN_BAG);
                }
                let rest: Vec<Grp> = exp.iter().filter(|g| !kept_grps.contains(g)).copied().collect();
                self.settle_doomed(&rest, false, what);
                if tok::has_violation() {
                    std::mem::forget(kept);
                    return true;
                }
                if op.b & 1 == 1 {
                    self.bag.extend(kept);
                } else {
                    let _ = guard_nopanic("caller drops what the adaptor returned", m(OWN_BAG), 0, move || drop(kept));
                }
            }
            Err(Thrown::Injected) if w.fired => {
                self.st.fault_fired[F_CLOSURE_PANIC] += 1;
                self.st.probes[P_CLOSURE_PANIC_FIRED] += 1;
                self.st.probes[P_FOLD_CLOSURE_PANIC] += 1;
                std::mem::forget(kept); // empty: results are only stored on normal return
                self.settle_doomed(&exp, false, what);
            }
            Err(Thrown::Injected) => std::mem::forget(kept),
            Err(t) => {
                std::mem::forget(kept);
                self.unexpected(what, t);
            }
        }
        true
    }

    /// A whole sequence yielded at once (fold / for-loop): must equal the model's order.
    fn settle_sequence(&mut self, out: Vec<X>, exp: Vec<Grp>, keep: bool, what: &str) {
        if out.len() != exp.len() {
            tok::raise(V6_LENGTH, format!("{} yielded {} elements, {} remained", what, out.len(), exp.len()));
            std::mem::forget(out);
            return;
        }
        for (i, x) in out.iter().enumerate() {
            let g = x.grp();
            if g != exp[i] {
                tok::raise(V5_ORDER, format!("{}: element {} has ids {:?}, model says {:?}", what, i, &g.ids[..g.n as usize], &exp[i].ids[..exp[i].n as usize]));
                std::mem::forget(out);
                return;
            }
        }
        for g in &exp {
            g.set_owner(OWN_BAG);
        }
        if keep {
            self.bag.extend(out);
        } else {
            let _ = guard_nopanic("caller drops yielded elements", m(OWN_BAG), 0, move || drop(out));
        }
    }
}

        impl<'s, X: Item> Stepper<$K, X> for VecExec<'s, $K, X> {
            fn start_fresh_arr(&mut self) {
                VecExec::<'s, $K, X>::start_fresh_arr(self)
            }
            fn start_from_v(&mut self, v: <$K as Kind<X>>::V, model: Vec<Grp>) {
                VecExec::<'s, $K, X>::start_from_v(self, v, model)
            }
            fn step(&mut self, op: Op) -> bool {
                VecExec::<'s, $K, X>::step(self, op)
            }
            fn finish(&mut self) {
                VecExec::<'s, $K, X>::finish(self)
            }
        }
    };
}

vec_exec_impl!(KVec2);
vec_exec_impl!(KVec3);
vec_exec_impl!(KVec4);
vec_exec_impl!(KVec8);
vec_exec_impl!(KVec16);
vec_exec_impl!(KVec32);
vec_exec_impl!(KVec64);
vec_exec_impl!(KExtent2);
vec_exec_impl!(KExtent3);
vec_exec_impl!(KRgb);
vec_exec_impl!(KRgba);
vec_exec_impl!(KUv);
vec_exec_impl!(KUvw);
