//! Minimal JSON value, writer and parser (no external crates; replay and evidence files only).

use std::collections::BTreeMap;
use std::fmt::Write;

#[derive(Clone, Debug, PartialEq)]
pub enum J {
    Null,
    Bool(bool),
    Int(i64),
    Num(f64),
    Str(String),
    Arr(Vec<J>),
    Obj(Vec<(String, J)>),
}

impl J {
    pub fn obj(pairs: Vec<(&str, J)>) -> J {
        J::Obj(pairs.into_iter().map(|(k, v)| (k.to_string(), v)).collect())
    }
    pub fn s(x: impl Into<String>) -> J {
        J::Str(x.into())
    }
    pub fn i(x: impl TryInto<i64>) -> J {
        J::Int(x.try_into().ok().unwrap_or(i64::MAX))
    }
    pub fn get(&self, k: &str) -> Option<&J> {
        match self {
            J::Obj(v) => v.iter().find(|(kk, _)| kk == k).map(|(_, v)| v),
            _ => None,
        }
    }
    pub fn as_i64(&self) -> Option<i64> {
        match self {
            J::Int(i) => Some(*i),
            J::Num(f) => Some(*f as i64),
            _ => None,
        }
    }
    pub fn as_str(&self) -> Option<&str> {
        match self {
            J::Str(s) => Some(s),
            _ => None,
        }
    }
    pub fn as_bool(&self) -> Option<bool> {
        match self {
            J::Bool(b) => Some(*b),
            _ => None,
        }
    }
    pub fn as_arr(&self) -> Option<&Vec<J>> {
        match self {
            J::Arr(a) => Some(a),
            _ => None,
        }
    }

    pub fn write(&self, out: &mut String, indent: usize, compact: bool) {
        match self {
            J::Null => out.push_str("null"),
            J::Bool(b) => out.push_str(if *b { "true" } else { "false" }),
            J::Int(i) => {
                let _ = write!(out, "{}", i);
            }
            J::Num(f) => {
                if !f.is_finite() {
                    out.push_str("null");
                } else if f.fract() == 0.0 && f.abs() < 1e15 {
                    let _ = write!(out, "{:.1}", f);
                } else {
                    let _ = write!(out, "{}", f);
                }
            }
            J::Str(s) => write_str(out, s),
            J::Arr(a) => {
                if a.is_empty() {
                    out.push_str("[]");
                    return;
                }
                let inner_compact = compact || a.iter().all(|x| !matches!(x, J::Arr(_) | J::Obj(_)));
                out.push('[');
                for (i, x) in a.iter().enumerate() {
                    if i > 0 {
                        out.push(',');
                        if inner_compact {
                            out.push(' ');
                        }
                    }
                    if !inner_compact {
                        out.push('\n');
                        pad(out, indent + 1);
                    }
                    x.write(out, indent + 1, inner_compact || is_flat_obj(x));
                }
                if !inner_compact {
                    out.push('\n');
                    pad(out, indent);
                }
                out.push(']');
            }
            J::Obj(o) => {
                if o.is_empty() {
                    out.push_str("{}");
                    return;
                }
                out.push('{');
                for (i, (k, v)) in o.iter().enumerate() {
                    if i > 0 {
                        out.push(',');
                        if compact {
                            out.push(' ');
                        }
                    }
                    if !compact {
                        out.push('\n');
                        pad(out, indent + 1);
                    }
                    write_str(out, k);
                    out.push_str(": ");
                    v.write(out, indent + 1, compact);
                }
                if !compact {
                    out.push('\n');
                    pad(out, indent);
                }
                out.push('}');
            }
        }
    }
    pub fn pretty(&self) -> String {
        let mut s = String::new();
        self.write(&mut s, 0, false);
        s.push('\n');
        s
    }
}

fn is_flat_obj(x: &J) -> bool {
    match x {
        J::Obj(o) => o.iter().all(|(_, v)| !matches!(v, J::Arr(_) | J::Obj(_))),
        _ => false,
    }
}

fn pad(out: &mut String, n: usize) {
    for _ in 0..n {
        out.push(' ');
    }
}

fn write_str(out: &mut String, s: &str) {
    out.push('"');
    for c in s.chars() {
        match c {
            '"' => out.push_str("\\\""),
            '\\' => out.push_str("\\\\"),
            '\n' => out.push_str("\\n"),
            '\r' => out.push_str("\\r"),
            '\t' => out.push_str("\\t"),
            c if (c as u32) < 0x20 => {
                let _ = write!(out, "\\u{:04x}", c as u32);
            }
            c => out.push(c),
        }
    }
    out.push('"');
}

pub fn parse(s: &str) -> Result<J, String> {
    let b = s.as_bytes();
    let mut p = 0usize;
    let v = parse_val(b, &mut p)?;
    skip_ws(b, &mut p);
    if p != b.len() {
        return Err(format!("trailing data at byte {}", p));
    }
    Ok(v)
}

fn skip_ws(b: &[u8], p: &mut usize) {
    while *p < b.len() && matches!(b[*p], b' ' | b'\n' | b'\r' | b'\t') {
        *p += 1;
    }
}

fn parse_val(b: &[u8], p: &mut usize) -> Result<J, String> {
    skip_ws(b, p);
    if *p >= b.len() {
        return Err("unexpected end".into());
    }
    match b[*p] {
        b'{' => {
            *p += 1;
            let mut o = Vec::new();
            skip_ws(b, p);
            if *p < b.len() && b[*p] == b'}' {
                *p += 1;
                return Ok(J::Obj(o));
            }
            loop {
                skip_ws(b, p);
                let k = match parse_val(b, p)? {
                    J::Str(s) => s,
                    _ => return Err("object key must be a string".into()),
                };
                skip_ws(b, p);
                if *p >= b.len() || b[*p] != b':' {
                    return Err(format!("expected ':' at byte {}", p));
                }
                *p += 1;
                let v = parse_val(b, p)?;
                o.push((k, v));
                skip_ws(b, p);
                if *p < b.len() && b[*p] == b',' {
                    *p += 1;
                    continue;
                }
                if *p < b.len() && b[*p] == b'}' {
                    *p += 1;
                    return Ok(J::Obj(o));
                }
                return Err(format!("expected ',' or '}}' at byte {}", p));
            }
        }
        b'[' => {
            *p += 1;
            let mut a = Vec::new();
            skip_ws(b, p);
            if *p < b.len() && b[*p] == b']' {
                *p += 1;
                return Ok(J::Arr(a));
            }
            loop {
                a.push(parse_val(b, p)?);
                skip_ws(b, p);
                if *p < b.len() && b[*p] == b',' {
                    *p += 1;
                    continue;
                }
                if *p < b.len() && b[*p] == b']' {
                    *p += 1;
                    return Ok(J::Arr(a));
                }
                return Err(format!("expected ',' or ']' at byte {}", p));
            }
        }
        b'"' => {
            *p += 1;
            let mut s = String::new();
            while *p < b.len() {
                let c = b[*p];
                *p += 1;
                match c {
                    b'"' => return Ok(J::Str(s)),
                    b'\\' => {
                        if *p >= b.len() {
                            break;
                        }
                        let e = b[*p];
                        *p += 1;
                        match e {
                            b'n' => s.push('\n'),
                            b'r' => s.push('\r'),
                            b't' => s.push('\t'),
                            b'u' => {
                                if *p + 4 > b.len() {
                                    return Err("bad \\u escape".into());
                                }
                                let h = std::str::from_utf8(&b[*p..*p + 4]).map_err(|e| e.to_string())?;
                                let cp = u32::from_str_radix(h, 16).map_err(|e| e.to_string())?;
                                s.push(char::from_u32(cp).unwrap_or('?'));
                                *p += 4;
                            }
                            other => s.push(other as char),
                        }
                    }
                    _ => {
                        // copy raw utf-8 bytes
                        let start = *p - 1;
                        let mut end = *p;
                        while end < b.len() && b[end] != b'"' && b[end] != b'\\' {
                            end += 1;
                        }
                        s.push_str(std::str::from_utf8(&b[start..end]).map_err(|e| e.to_string())?);
                        *p = end;
                    }
                }
            }
            Err("unterminated string".into())
        }
        b't' if b[*p..].starts_with(b"true") => {
            *p += 4;
            Ok(J::Bool(true))
        }
        b'f' if b[*p..].starts_with(b"false") => {
            *p += 5;
            Ok(J::Bool(false))
        }
        b'n' if b[*p..].starts_with(b"null") => {
            *p += 4;
            Ok(J::Null)
        }
        _ => {
            let start = *p;
            while *p < b.len() && matches!(b[*p], b'-' | b'+' | b'.' | b'e' | b'E' | b'0'..=b'9') {
                *p += 1;
            }
            let t = std::str::from_utf8(&b[start..*p]).map_err(|e| e.to_string())?;
            if let Ok(i) = t.parse::<i64>() {
                Ok(J::Int(i))
            } else if let Ok(f) = t.parse::<f64>() {
                Ok(J::Num(f))
            } else {
                Err(format!("bad token at byte {}", start))
            }
        }
    }
}

pub fn btree_obj(m: &BTreeMap<String, J>) -> J {
    J::Obj(m.iter().map(|(k, v)| (k.clone(), v.clone())).collect())
}
