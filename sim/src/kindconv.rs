//! Kind and size conversions between the vector types (operation `VKindConv`): every `From` impl in
//! `src/vec.rs` that has no bound on the element type — `From<other kind>`, truncating
//! `From<larger>`, extending `From<(smaller, scalar)>` — composed so that the chain ends in the
//! run's own vector type again. Where vek has no conversion back, the harness takes the value apart
//! through its public fields (plain Rust moves) and rebuilds with `new`.
//!
//! These are safe code on the unchanged tree; they are driven because they move elements that need
//! not be `Copy`, and a conversion "made zero-cost" through a bitwise copy would duplicate them.

#![allow(non_snake_case)]

use crate::adapters::{KcSpec, KC_ZERO};
use vek::quaternion::repr_c::Quaternion;
use vek::vec::repr_c::*;

fn take<X>(extras: Vec<X>) -> std::vec::IntoIter<X> {
    extras.into_iter()
}

macro_rules! none {
    ($($K:ident $V:ident),+) => {$(
        pub struct $K;
        impl $K {
            pub const SPECS: &'static [KcSpec] = &[];
            pub fn conv<X>(v: $V<X>, _variant: usize, _extras: Vec<X>) -> $V<X> { v }
        }
    )+};
}
none!(KVec8 Vec8, KVec16 Vec16, KVec32 Vec32, KVec64 Vec64);

pub struct KVec2;
impl KVec2 {
    pub const SPECS: &'static [KcSpec] = &[
        KcSpec { name: "Vec2::from(Extent2::from(v))", extras: 0, result: &[0, 1] },
        KcSpec { name: "Vec2::from(Vec3::from((v, e)))", extras: 1, result: &[0, 1] },
        KcSpec { name: "Vec2::from(Vec4::from((Vec3::from((v, e0)), e1)))", extras: 2, result: &[0, 1] },
        KcSpec { name: "Uv::from(v) -> fields -> Vec2::new", extras: 0, result: &[0, 1] },
        KcSpec { name: "v.yx()", extras: 0, result: &[1, 0] },
        KcSpec { name: "v.with_x(e)", extras: 1, result: &[-1, 1] },
        KcSpec { name: "v.with_y(e)", extras: 1, result: &[0, -1] },
        KcSpec { name: "Vec2::from(v.with_z(e))", extras: 1, result: &[0, 1] },
        KcSpec { name: "Vec2::from(Vec3::from(v))  [zero-extended, T: Zero]", extras: 0, result: &[0, 1] },
        KcSpec { name: "Vec2::from(Vec4::from(v))  [zero-extended, T: Zero]", extras: 0, result: &[0, 1] },
    ];
    pub fn conv<X: vek::num_traits::Zero>(v: Vec2<X>, variant: usize, extras: Vec<X>) -> Vec2<X> {
        let mut e = take(extras);
        match variant {
            0 => Vec2::from(Extent2::from(v)),
            1 => Vec2::from(Vec3::from((v, e.next().unwrap()))),
            2 => Vec2::from(Vec4::from((Vec3::from((v, e.next().unwrap())), e.next().unwrap()))),
            3 => {
                let Uv { u, v } = Uv::from(v);
                Vec2::new(u, v)
            }
            4 => v.yx(),
            5 => v.with_x(e.next().unwrap()),
            6 => v.with_y(e.next().unwrap()),
            8 => Vec2::from(Vec3::from(v)),
            9 => Vec2::from(Vec4::from(v)),
            _ => Vec2::from(v.with_z(e.next().unwrap())),
        }
    }
}

pub struct KVec3;
impl KVec3 {
    pub const SPECS: &'static [KcSpec] = &[
        KcSpec { name: "Vec3::from(Extent3::from(v))", extras: 0, result: &[0, 1, 2] },
        KcSpec { name: "Vec3::from(Rgb::from(v))", extras: 0, result: &[0, 1, 2] },
        KcSpec { name: "Vec3::from(Uvw::from(v))", extras: 0, result: &[0, 1, 2] },
        KcSpec { name: "Vec3::from(Vec4::from((v, e)))", extras: 1, result: &[0, 1, 2] },
        KcSpec { name: "Vec3::from((Vec2::from(v), e))", extras: 1, result: &[0, 1, -1] },
        KcSpec { name: "v.zyx()", extras: 0, result: &[2, 1, 0] },
        KcSpec { name: "v.with_x(e)", extras: 1, result: &[-1, 1, 2] },
        KcSpec { name: "v.with_y(e)", extras: 1, result: &[0, -1, 2] },
        KcSpec { name: "v.with_z(e)", extras: 1, result: &[0, 1, -1] },
        KcSpec { name: "Vec3::from((v.xy(), e))", extras: 1, result: &[0, 1, -1] },
        KcSpec { name: "Vec3::from(v.with_w(e))", extras: 1, result: &[0, 1, 2] },
        KcSpec { name: "Vec3::from(Vec4::from(v))  [zero-extended, T: Zero]", extras: 0, result: &[0, 1, 2] },
        KcSpec { name: "Vec3::from(Vec2::from(v))  [truncated, then zero-extended, T: Zero]", extras: 0, result: &[0, 1, KC_ZERO] },
    ];
    pub fn conv<X: vek::num_traits::Zero>(v: Vec3<X>, variant: usize, extras: Vec<X>) -> Vec3<X> {
        let mut e = take(extras);
        match variant {
            0 => Vec3::from(Extent3::from(v)),
            1 => Vec3::from(Rgb::from(v)),
            2 => Vec3::from(Uvw::from(v)),
            3 => Vec3::from(Vec4::from((v, e.next().unwrap()))),
            4 => Vec3::from((Vec2::from(v), e.next().unwrap())),
            5 => v.zyx(),
            6 => v.with_x(e.next().unwrap()),
            7 => v.with_y(e.next().unwrap()),
            8 => v.with_z(e.next().unwrap()),
            9 => Vec3::from((v.xy(), e.next().unwrap())),
            11 => Vec3::from(Vec4::from(v)),
            12 => Vec3::from(Vec2::from(v)),
            _ => Vec3::from(v.with_w(e.next().unwrap())),
        }
    }
}

pub struct KVec4;
impl KVec4 {
    pub const SPECS: &'static [KcSpec] = &[
        KcSpec { name: "Vec4::from(Rgba::from(v))", extras: 0, result: &[0, 1, 2, 3] },
        KcSpec { name: "Vec4::from((Vec3::from(v), e))", extras: 1, result: &[0, 1, 2, -1] },
        KcSpec { name: "Vec4::from((Vec3::from((Vec2::from(v), e0)), e1))", extras: 2, result: &[0, 1, -1, -2] },
        KcSpec { name: "v.zyxw()", extras: 0, result: &[2, 1, 0, 3] },
        KcSpec { name: "v.with_x(e)", extras: 1, result: &[-1, 1, 2, 3] },
        KcSpec { name: "v.with_y(e)", extras: 1, result: &[0, -1, 2, 3] },
        KcSpec { name: "v.with_z(e)", extras: 1, result: &[0, 1, -1, 3] },
        KcSpec { name: "v.with_w(e)", extras: 1, result: &[0, 1, 2, -1] },
        KcSpec { name: "Vec4::from((v.xyz(), e))", extras: 1, result: &[0, 1, 2, -1] },
        KcSpec { name: "Vec4::from((Vec3::from((v.xy(), e0)), e1))", extras: 2, result: &[0, 1, -1, -2] },
        KcSpec { name: "Vec4::from(Quaternion::from(v))", extras: 0, result: &[0, 1, 2, 3] },
        KcSpec { name: "Vec4::from((Vec3::from(Quaternion::from(v)), e))", extras: 1, result: &[0, 1, 2, -1] },
        KcSpec { name: "Quaternion::from_vec4(v).into_vec4()", extras: 0, result: &[0, 1, 2, 3] },
        KcSpec { name: "Vec4::from((Quaternion::from_vec4(v).into_vec3(), e))", extras: 1, result: &[0, 1, 2, -1] },
        KcSpec { name: "fields -> Quaternion::from_xyzw(x, y, z, w).into_scalar_and_vec3() -> Vec4::from((v3, w))", extras: 0, result: &[0, 1, 2, 3] },
        KcSpec { name: "fields -> Quaternion::from_scalar_and_vec3((w, Vec3::new(x, y, z))).into_vec4()", extras: 0, result: &[0, 1, 2, 3] },
        KcSpec { name: "Vec4::interleave_0011(v, w)", extras: 4, result: &[0, -1, 1, -2] },
        KcSpec { name: "Vec4::interleave_2233(v, w)", extras: 4, result: &[2, -3, 3, -4] },
        KcSpec { name: "Vec4::shuffle_lo_hi_0101(v, w)", extras: 4, result: &[0, 1, -1, -2] },
        KcSpec { name: "Vec4::shuffle_hi_lo_2323(v, w)", extras: 4, result: &[-3, -4, 2, 3] },
        KcSpec { name: "Vec4::from(Vec3::from(v))  [truncated, then zero-extended, T: Zero]", extras: 0, result: &[0, 1, 2, KC_ZERO] },
        KcSpec { name: "Vec4::from(Vec2::from(v))  [truncated, then zero-extended, T: Zero]", extras: 0, result: &[0, 1, KC_ZERO, KC_ZERO] },
    ];
    pub fn conv<X: vek::num_traits::Zero>(v: Vec4<X>, variant: usize, extras: Vec<X>) -> Vec4<X> {
        let mut e = take(extras);
        match variant {
            20 => Vec4::from(Vec3::from(v)),
            21 => Vec4::from(Vec2::from(v)),
            0 => Vec4::from(Rgba::from(v)),
            1 => Vec4::from((Vec3::from(v), e.next().unwrap())),
            2 => Vec4::from((Vec3::from((Vec2::from(v), e.next().unwrap())), e.next().unwrap())),
            3 => v.zyxw(),
            4 => v.with_x(e.next().unwrap()),
            5 => v.with_y(e.next().unwrap()),
            6 => v.with_z(e.next().unwrap()),
            7 => v.with_w(e.next().unwrap()),
            8 => Vec4::from((v.xyz(), e.next().unwrap())),
            9 => Vec4::from((Vec3::from((v.xy(), e.next().unwrap())), e.next().unwrap())),
            10 => Vec4::from(Quaternion::from(v)),
            11 => Vec4::from((Vec3::from(Quaternion::from(v)), e.next().unwrap())),
            12 => Quaternion::from_vec4(v).into_vec4(),
            13 => Vec4::from((Quaternion::from_vec4(v).into_vec3(), e.next().unwrap())),
            14 => {
                let Vec4 { x, y, z, w } = v;
                let (w, v3) = Quaternion::from_xyzw(x, y, z, w).into_scalar_and_vec3();
                Vec4::from((v3, w))
            }
            15 => {
                let Vec4 { x, y, z, w } = v;
                Quaternion::from_scalar_and_vec3((w, Vec3::new(x, y, z))).into_vec4()
            }
            k => {
                let w = Vec4::new(e.next().unwrap(), e.next().unwrap(), e.next().unwrap(), e.next().unwrap());
                match k {
                    16 => Vec4::interleave_0011(v, w),
                    17 => Vec4::interleave_2233(v, w),
                    18 => Vec4::shuffle_lo_hi_0101(v, w),
                    _ => Vec4::shuffle_hi_lo_2323(v, w),
                }
            }
        }
    }
}

pub struct KExtent2;
impl KExtent2 {
    pub const SPECS: &'static [KcSpec] = &[
        KcSpec { name: "Extent2::from(Vec2::from(v))", extras: 0, result: &[0, 1] },
        KcSpec { name: "Extent3::from((v, e)) -> fields -> Extent2::new", extras: 1, result: &[0, 1] },
    ];
    pub fn conv<X>(v: Extent2<X>, variant: usize, extras: Vec<X>) -> Extent2<X> {
        let mut e = take(extras);
        match variant {
            0 => Extent2::from(Vec2::from(v)),
            _ => {
                let Extent3 { w, h, d } = Extent3::from((v, e.next().unwrap()));
                drop(d);
                Extent2::new(w, h)
            }
        }
    }
}

pub struct KExtent3;
impl KExtent3 {
    pub const SPECS: &'static [KcSpec] = &[
        KcSpec { name: "Extent3::from(Vec3::from(v))", extras: 0, result: &[0, 1, 2] },
        KcSpec { name: "fields -> Extent3::from((Extent2::new(w, h), d))", extras: 0, result: &[0, 1, 2] },
        KcSpec { name: "Extent3::from(Vec3::from(Vec4::from((Vec3::from(v), e))))", extras: 1, result: &[0, 1, 2] },
    ];
    pub fn conv<X>(v: Extent3<X>, variant: usize, extras: Vec<X>) -> Extent3<X> {
        let mut e = take(extras);
        match variant {
            0 => Extent3::from(Vec3::from(v)),
            1 => {
                let Extent3 { w, h, d } = v;
                Extent3::from((Extent2::new(w, h), d))
            }
            _ => Extent3::from(Vec3::from(Vec4::from((Vec3::from(v), e.next().unwrap())))),
        }
    }
}

pub struct KRgb;
impl KRgb {
    pub const SPECS: &'static [KcSpec] = &[
        KcSpec { name: "Rgb::from(Vec3::from(v))", extras: 0, result: &[0, 1, 2] },
        KcSpec { name: "Rgb::from(Rgba::from((v, e)))", extras: 1, result: &[0, 1, 2] },
        KcSpec { name: "v.shuffled_bgr()", extras: 0, result: &[2, 1, 0] },
    ];
    pub fn conv<X>(v: Rgb<X>, variant: usize, extras: Vec<X>) -> Rgb<X> {
        let mut e = take(extras);
        match variant {
            0 => Rgb::from(Vec3::from(v)),
            1 => Rgb::from(Rgba::from((v, e.next().unwrap()))),
            _ => v.shuffled_bgr(),
        }
    }
}

pub struct KRgba;
impl KRgba {
    pub const SPECS: &'static [KcSpec] = &[
        KcSpec { name: "Rgba::from(Vec4::from(v))", extras: 0, result: &[0, 1, 2, 3] },
        KcSpec { name: "Rgba::from((Rgb::from(v), e))", extras: 1, result: &[0, 1, 2, -1] },
        KcSpec { name: "v.shuffled_argb()", extras: 0, result: &[3, 0, 1, 2] },
        KcSpec { name: "v.shuffled_bgra()", extras: 0, result: &[2, 1, 0, 3] },
        KcSpec { name: "Rgba::from((v.rgb(), e))", extras: 1, result: &[0, 1, 2, -1] },
    ];
    pub fn conv<X>(v: Rgba<X>, variant: usize, extras: Vec<X>) -> Rgba<X> {
        let mut e = take(extras);
        match variant {
            0 => Rgba::from(Vec4::from(v)),
            1 => Rgba::from((Rgb::from(v), e.next().unwrap())),
            2 => v.shuffled_argb(),
            3 => v.shuffled_bgra(),
            _ => Rgba::from((v.rgb(), e.next().unwrap())),
        }
    }
}

pub struct KUv;
impl KUv {
    pub const SPECS: &'static [KcSpec] = &[
        KcSpec { name: "fields -> Uv::from(Vec2::new(u, v))", extras: 0, result: &[0, 1] },
        KcSpec { name: "Uvw::from((v, e)) -> fields -> Uv::new", extras: 1, result: &[0, 1] },
    ];
    pub fn conv<X>(v: Uv<X>, variant: usize, extras: Vec<X>) -> Uv<X> {
        let mut e = take(extras);
        match variant {
            0 => {
                let Uv { u, v } = v;
                Uv::from(Vec2::new(u, v))
            }
            _ => {
                let Uvw { u, v, w } = Uvw::from((v, e.next().unwrap()));
                drop(w);
                Uv::new(u, v)
            }
        }
    }
}

pub struct KUvw;
impl KUvw {
    pub const SPECS: &'static [KcSpec] = &[
        KcSpec { name: "Uvw::from(Vec3::from(v))", extras: 0, result: &[0, 1, 2] },
        KcSpec { name: "fields -> Uvw::from((Uv::new(u, v), w))", extras: 0, result: &[0, 1, 2] },
    ];
    pub fn conv<X>(v: Uvw<X>, variant: usize, _extras: Vec<X>) -> Uvw<X> {
        match variant {
            0 => Uvw::from(Vec3::from(v)),
            _ => {
                let Uvw { u, v, w } = v;
                Uvw::from((Uv::new(u, v), w))
            }
        }
    }
}
