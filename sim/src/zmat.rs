//! Matrices of zero-sized elements with drop glue: the matrix part of a plan interpreted with
//! the counting oracle of `zexec` (no identities, hence no order check): after every operation
//! `created - destroyed - forgotten` must equal the number of elements the matrix / array holds,
//! and the flat slice views must have one entry per element.

use crate::exec::{guard, guard_nopanic, Thrown};
use crate::ops::*;
use crate::tok::{self, *};
use crate::zexec::{conserve, counts, ZDrop};

pub trait ZMat {
    const NN: u64;
    fn fresh(&mut self);
    fn holds(&self) -> bool;
    fn forget(&mut self);
    fn drop_form(&mut self);
    /// Returns false when the operation is not modelled or its precondition does not hold.
    fn step(&mut self, op: Op, home_cm: bool) -> bool;
}

macro_rules! zmat {
    ($Z:ident, $n:expr, $nn:expr, $Mat:ident, [$($nm:ident)+], [$V0:ident $V1:ident]) => {
        pub enum $Z {
            Flat([ZDrop; $nn]),
            Nested([[ZDrop; $n]; $n]),
            RM(vek::mat::repr_c::row_major::$Mat<ZDrop>),
            CM(vek::mat::repr_c::column_major::$Mat<ZDrop>),
            Gone,
        }
        impl ZMat for $Z {
            const NN: u64 = $nn;
            fn fresh(&mut self) {
                *self = $Z::Flat(std::array::from_fn(|_| ZDrop::new()));
            }
            fn holds(&self) -> bool {
                !matches!(self, $Z::Gone)
            }
            fn forget(&mut self) {
                std::mem::forget(std::mem::replace(self, $Z::Gone));
            }
            fn drop_form(&mut self) {
                let f = std::mem::replace(self, $Z::Gone);
                let _ = guard_nopanic("drop of a matrix / array", 0, 0, move || drop(f));
            }
            fn step(&mut self, op: Op, home_cm: bool) -> bool {
                use OpK::*;
                type RM = vek::mat::repr_c::row_major::$Mat<ZDrop>;
                type CM = vek::mat::repr_c::column_major::$Mat<ZDrop>;
                let by_cols = op.a & 1 == 1;
                let cur = std::mem::replace(self, $Z::Gone);
                let (next, done) = match (op.k, cur) {
                    (MFromFlat, $Z::Flat(f)) => (
                        guard_nopanic("from_{row,col}_array", 0, 0, move || {
                            if home_cm {
                                $Z::CM(if by_cols { CM::from_col_array(f) } else { CM::from_row_array(f) })
                            } else {
                                $Z::RM(if by_cols { RM::from_col_array(f) } else { RM::from_row_array(f) })
                            }
                        }),
                        true,
                    ),
                    (MNew, $Z::Flat(f)) => (
                        guard_nopanic("Mat::new", 0, 0, move || {
                            let [$($nm),+] = f;
                            if home_cm { $Z::CM(CM::new($($nm),+)) } else { $Z::RM(RM::new($($nm),+)) }
                        }),
                        true,
                    ),
                    (MFromNested, $Z::Nested(f)) => (
                        guard_nopanic("from_{row,col}_arrays", 0, 0, move || {
                            if home_cm {
                                $Z::CM(if by_cols { CM::from_col_arrays(f) } else { CM::from_row_arrays(f) })
                            } else {
                                $Z::RM(if by_cols { RM::from_col_arrays(f) } else { RM::from_row_arrays(f) })
                            }
                        }),
                        true,
                    ),
                    (MIntoFlat, $Z::RM(m)) => (guard_nopanic("into_{row,col}_array", 0, 0, move || $Z::Flat(if by_cols { m.into_col_array() } else { m.into_row_array() })), true),
                    (MIntoFlat, $Z::CM(m)) => (guard_nopanic("into_{row,col}_array", 0, 0, move || $Z::Flat(if by_cols { m.into_col_array() } else { m.into_row_array() })), true),
                    (MIntoNested, $Z::RM(m)) => (guard_nopanic("into_{row,col}_arrays", 0, 0, move || $Z::Nested(if by_cols { m.into_col_arrays() } else { m.into_row_arrays() })), true),
                    (MIntoNested, $Z::CM(m)) => (guard_nopanic("into_{row,col}_arrays", 0, 0, move || $Z::Nested(if by_cols { m.into_col_arrays() } else { m.into_row_arrays() })), true),
                    (FlatToNested, $Z::Flat(f)) => {
                        let mut it = f.into_iter();
                        (Some($Z::Nested(std::array::from_fn(|_| std::array::from_fn(|_| it.next().expect("harness: nested"))))), true)
                    }
                    (NestedToFlat, $Z::Nested(f)) => {
                        let mut it = f.into_iter().flatten();
                        (Some($Z::Flat(std::array::from_fn(|_| it.next().expect("harness: flat")))), true)
                    }
                    (MSwitchLayout, $Z::RM(m)) => (guard_nopanic("From<other layout>", 0, 0, move || $Z::CM(CM::from(m))), true),
                    (MSwitchLayout, $Z::CM(m)) => (guard_nopanic("From<other layout>", 0, 0, move || $Z::RM(RM::from(m))), true),
                    (MTranspose, $Z::RM(mut m)) => (
                        guard_nopanic("transpose", 0, 0, move || {
                            if by_cols {
                                m.transpose();
                                $Z::RM(m)
                            } else {
                                $Z::RM(m.transposed())
                            }
                        }),
                        true,
                    ),
                    (MTranspose, $Z::CM(mut m)) => (
                        guard_nopanic("transpose", 0, 0, move || {
                            if by_cols {
                                m.transpose();
                                $Z::CM(m)
                            } else {
                                $Z::CM(m.transposed())
                            }
                        }),
                        true,
                    ),
                    (MSliceRead, $Z::RM(m)) => {
                        if let Some(l) = guard_nopanic("as_row_slice", 0, 0, || m.as_row_slice().len()) {
                            if l != $nn {
                                tok::raise(V9_ALIAS, format!("zero-sized elements: as_row_slice has length {} on a {}x{} matrix", l, $n, $n));
                            }
                        }
                        (Some($Z::RM(m)), true)
                    }
                    (MSliceRead, $Z::CM(m)) => {
                        if let Some(l) = guard_nopanic("as_col_slice", 0, 0, || m.as_col_slice().len()) {
                            if l != $nn {
                                tok::raise(V9_ALIAS, format!("zero-sized elements: as_col_slice has length {} on a {}x{} matrix", l, $n, $n));
                            }
                        }
                        (Some($Z::CM(m)), true)
                    }
                    // ---- operations that run user code (closures: fault kind F7) or move elements around ----
                    (MMapRows, c @ $Z::RM(_)) | (MMapRows, c @ $Z::CM(_)) => {
                        let mode = op.a % 3;
                        let pa = op.f;
                        let other: Option<$Z> = if mode == 2 {
                            let f: [ZDrop; $nn] = std::array::from_fn(|_| ZDrop::new());
                            let [$($nm),+] = f;
                            Some(if matches!(c, $Z::CM(_)) { $Z::CM(CM::new($($nm),+)) } else { $Z::RM(RM::new($($nm),+)) })
                        } else {
                            None
                        };
                        let mut fired = false;
                        let r = {
                            let fired = &mut fired;
                            guard(0, 0, None, move || {
                                let mut calls = 0u32;
                                let mut tick = move || {
                                    calls += 1;
                                    if pa != 0 && calls == pa {
                                        *fired = true;
                                        tok::note(EV_INJECT, 7000 + calls as u64);
                                        std::panic::panic_any(Injected);
                                    }
                                };
                                match (c, other) {
                                    ($Z::RM(m), Some($Z::RM(o))) => $Z::RM(m.map2(o, |t, u| {
                                        tick();
                                        drop(u);
                                        t
                                    })),
                                    ($Z::CM(m), Some($Z::CM(o))) => $Z::CM(m.map2(o, |t, u| {
                                        tick();
                                        drop(u);
                                        t
                                    })),
                                    ($Z::RM(m), _) => $Z::RM(if mode == 1 {
                                        m.map(|t| {
                                            tick();
                                            t
                                        })
                                    } else {
                                        m.map_rows(|l| {
                                            tick();
                                            l
                                        })
                                    }),
                                    ($Z::CM(m), _) => $Z::CM(if mode == 1 {
                                        m.map(|t| {
                                            tick();
                                            t
                                        })
                                    } else {
                                        m.map_cols(|l| {
                                            tick();
                                            l
                                        })
                                    }),
                                    _ => unreachable!(),
                                }
                            })
                            .0
                        };
                        match r {
                            Ok(f) => (Some(f), true),
                            Err(Thrown::Injected) if fired => (None, true),
                            Err(Thrown::Injected) => {
                                tok::raise(V10_UNEXPECTED_PANIC, "zero-sized elements: map / map2 / map_rows / map_cols: an injected panic surfaced where none was planned (harness)".to_string());
                                (None, true)
                            }
                            Err(Thrown::Genuine(msg)) => {
                                tok::raise(V10_UNEXPECTED_PANIC, format!("zero-sized elements: map / map2 / map_rows / map_cols panicked: {}", msg));
                                (None, true)
                            }
                        }
                    }
                    (MClone, $Z::RM(m)) => {
                        let _ = guard_nopanic("clone of a matrix", 0, 0, || drop(m.clone()));
                        (Some($Z::RM(m)), true)
                    }
                    (MClone, $Z::CM(m)) => {
                        let _ = guard_nopanic("clone of a matrix", 0, 0, || drop(m.clone()));
                        (Some($Z::CM(m)), true)
                    }
                    (MDiagonal, $Z::RM(m)) => {
                        let _ = guard_nopanic("diagonal()", 0, 0, move || drop(m.diagonal()));
                        (None, true)
                    }
                    (MDiagonal, $Z::CM(m)) => {
                        let _ = guard_nopanic("diagonal()", 0, 0, move || drop(m.diagonal()));
                        (None, true)
                    }
                    (MArith, $Z::RM(m)) if op.a % 5 != 2 => (
                        guard_nopanic("matrix arithmetic / size conversions", 0, 0, move || {
                            $Z::RM(match op.a % 5 {
                                0 => {
                                    let f: [ZDrop; $nn] = std::array::from_fn(|_| ZDrop::new());
                                    let [$($nm),+] = f;
                                    m + RM::new($($nm),+)
                                }
                                1 => -m,
                                3 => RM::from(vek::mat::repr_c::row_major::$V0::<ZDrop>::from(m)),
                                _ => RM::from(vek::mat::repr_c::row_major::$V1::<ZDrop>::from(m)),
                            })
                        }),
                        true,
                    ),
                    (MArith, $Z::CM(m)) if op.a % 5 != 2 => (
                        guard_nopanic("matrix arithmetic / size conversions", 0, 0, move || {
                            $Z::CM(match op.a % 5 {
                                0 => {
                                    let f: [ZDrop; $nn] = std::array::from_fn(|_| ZDrop::new());
                                    let [$($nm),+] = f;
                                    m + CM::new($($nm),+)
                                }
                                1 => -m,
                                3 => CM::from(vek::mat::repr_c::column_major::$V0::<ZDrop>::from(m)),
                                _ => CM::from(vek::mat::repr_c::column_major::$V1::<ZDrop>::from(m)),
                            })
                        }),
                        true,
                    ),
                    (MArith, other) if op.a % 5 == 2 => {
                        let _ = guard_nopanic("Mat::default()", 0, 0, move || {
                            if home_cm {
                                drop(CM::default())
                            } else {
                                drop(RM::default())
                            }
                        });
                        (Some(other), true)
                    }
                    (_, other) => (Some(other), false),
                };
                if let Some(f) = next {
                    *self = f;
                }
                done
            }
        }
    };
}

zmat!(ZM2, 2, 4, Mat2, [m0 m1 m2 m3], [Mat3 Mat4]);
zmat!(ZM3, 3, 9, Mat3, [m0 m1 m2 m3 m4 m5 m6 m7 m8], [Mat4 Mat2]);
zmat!(ZM4, 4, 16, Mat4, [m0 m1 m2 m3 m4 m5 m6 m7 m8 m9 m10 m11 m12 m13 m14 m15], [Mat3 Mat2]);

/// Interpret the matrix part of a plan (up to `MTakeLines`) on zero-sized elements.
pub fn run<Z: ZMat>(mut z: Z, home_cm: bool, ops: &[Op], mut on_step: impl FnMut(usize, Op, bool)) {
    let base = counts();
    let mut forgotten = 0u64;
    z.fresh();
    for (i, op) in ops.iter().enumerate() {
        tok::with(|l| l.step = i as u32);
        tok::note(EV_OP, op.k as u64);
        tok::trace_line(|| format!("  step {}: {:?}", i, op));
        if op.k == OpK::MTakeLines {
            break;
        }
        let done = match op.k {
            OpK::Drop => {
                if z.holds() {
                    z.drop_form();
                    true
                } else {
                    false
                }
            }
            OpK::Forget => {
                if z.holds() {
                    forgotten += Z::NN;
                    z.forget();
                    true
                } else {
                    false
                }
            }
            _ => z.step(*op, home_cm),
        };
        if done && !tok::has_violation() {
            conserve(base, forgotten, if z.holds() { Z::NN } else { 0 }, op.k.name());
        }
        on_step(i, *op, done);
        if tok::has_violation() {
            z.forget();
            return;
        }
    }
    tok::with(|l| l.step = u32::MAX);
    z.drop_form();
    conserve(base, forgotten, 0, "the final drop of the matrix");
}
