//! Plan generation: everything about a run (container, class, swarm configuration, operation
//! list, fault annotations) is drawn up-front from the run's own PRNG. The executor draws
//! nothing.

use crate::ops::*;
use crate::rng::Rng;

/// Relative weights of the 19 container kinds (each >= 2 % of runs).
const KIND_W: [u32; N_KINDS] = [
    7, 7, 8, 6, 5, 4, 4, // Vec2 Vec3 Vec4 Vec8 Vec16 Vec32 Vec64
    4, 4, 4, 4, 4, 4, // Extent2 Extent3 Rgb Rgba Uv Uvw
    5, 5, 6, 5, 5, 6, // matrices
];

#[derive(Clone, Copy, PartialEq, Eq, Debug)]
enum F {
    Arr,
    Tup,
    V,
    It,
    Gone,
}

struct G<'a> {
    r: &'a mut Rng,
    ops: Vec<Op>,
    form: F,
    n: usize,    // elements of the vector-shaped value
    w: usize,    // tracked elements per element (1, or n for matrix lines)
    len: usize,  // remaining in iterator
    front: usize,
    back: usize,
    bag: usize,
    twin: bool,
    inner: usize, // remaining in inner iterator (0 = none), +1 encoded: 0 none
    faulty: bool,
    faults_left: u32,
    // swarm configuration
    keep_policy: u8, // 0 drop at once, 1 keep, 2 random
    front_bias: u32, // out of 8
    en_nth: bool,
    en_take: bool,
    en_twin: bool,
    en_obs: bool,
    en_bagdrop: bool,
    en_len: bool,
    en_inner: bool,
    en_adapt: bool,
    fault_p: u32, // out of 16
}

impl<'a> G<'a> {
    fn keep(&mut self) -> u32 {
        match self.keep_policy {
            0 => 0,
            1 => 1,
            _ => self.r.below(2),
        }
    }
    /// Fault annotation for an operation with `cbs` eligible callbacks.
    fn fault(&mut self, cbs: usize) -> u32 {
        if self.faulty && self.faults_left > 0 && self.r.below(16) < self.fault_p {
            self.faults_left -= 1;
            self.r.range(1, cbs as u32 + 2)
        } else {
            0
        }
    }
    fn push(&mut self, op: Op) {
        self.ops.push(op);
    }

    fn pulled(&mut self, k: usize, back: bool) {
        let k = k.min(self.len);
        self.len -= k;
        if back {
            self.back += k;
        } else {
            self.front += k;
        }
    }

    fn chain_step(&mut self) {
        match self.form {
            F::Arr => {
                let c = self.r.weighted(&[5, 2, 2, 3, 1]);
                match c {
                    0 => {
                        self.push(Op::new(OpK::ArrToV));
                        self.form = F::V;
                    }
                    1 => {
                        self.push(Op::new(OpK::VNew));
                        self.form = F::V;
                    }
                    2 => {
                        self.push(Op::new(OpK::ArrToTup));
                        self.form = F::Tup;
                    }
                    3 => self.from_iter_stub(),
                    _ => {
                        let f = self.fault(self.n * self.w);
                        self.push(Op::abf(OpK::VDefault, 0, 0, f));
                        self.form = if f > 0 { F::Gone } else { F::V };
                        if f as usize > self.n * self.w {
                            self.form = F::V;
                        }
                    }
                }
            }
            F::Tup => {
                if self.r.chance(3, 4) {
                    self.push(Op::new(OpK::TupToV));
                    self.form = F::V;
                } else {
                    self.push(Op::new(OpK::TupToArr));
                    self.form = F::Arr;
                }
            }
            F::V => {
                let c = self.r.weighted(&[3, 3, 3, 2, 2, 1, 2, 2, 1, 1, 1, 2, 2]);
                match c {
                    12 => {
                        // arithmetic with elements that are not Copy (operators, mul_add, Sum/Product, sum()/product())
                        let mode = self.r.below(21);
                        let keep = self.r.below(2);
                        let extra = self.r.below(3);
                        let mut b = (keep << 8) | if mode == 7 || mode == 8 { extra } else { 0 };
                        if matches!(mode, 0 | 4 | 5) {
                            // which operator of the shared macro
                            b |= self.r.below(10) << 16;
                        }
                        let calls = match mode {
                            7 | 8 => (1 + extra as usize) * self.n * self.w,
                            9 | 10 => self.n.saturating_sub(1) * self.w,
                            _ => self.n * self.w,
                        };
                        let mut f = 0;
                        let mut gone = mode == 9 || mode == 10 || (13..17).contains(&mode);
                        if self.faulty && self.faults_left > 0 && self.r.below(16) < self.fault_p {
                            self.faults_left -= 1;
                            let which = if mode == 7 || mode == 8 { self.r.below(3) } else if mode >= 13 { 3 } else { 0 };
                            match which {
                                3 => {
                                    // ordering-based forms: a comparison unwinds, or a loser's destructor does
                                    if self.r.below(2) == 0 {
                                        f = self.r.range(1, 2 * (self.n * self.w) as u32 + 1);
                                    } else {
                                        f = 1000 + self.r.below((self.n * self.w) as u32 + 1);
                                    }
                                    gone = true;
                                }
                                0 => {
                                    f = self.r.range(1, calls as u32 + 2);
                                    if (f as usize) <= calls && mode != 4 {
                                        gone = true;
                                    }
                                }
                                1 => {
                                    f = 1000 + self.r.below((self.n * self.w) as u32 + 1);
                                    if ((f - 1000) as usize) < self.n * self.w {
                                        gone = true;
                                    }
                                }
                                _ => {
                                    let j = self.r.range(1, extra + 3);
                                    b |= j << 9;
                                    if j <= extra + 2 {
                                        gone = true;
                                    }
                                }
                            }
                        }
                        self.push(Op::abf(OpK::VArith, mode, b, f));
                        if gone {
                            self.form = F::Gone;
                        }
                    }
                    10 => {
                        let a = self.r.below(2);
                        let f = self.fault(self.n.saturating_sub(1));
                        self.push(Op::abf(OpK::VReduce, a, 0, f));
                        self.form = F::Gone;
                    }
                    11 => {
                        let a = self.r.below(240);
                        self.push(Op::a(OpK::VKindConv, a));
                    }
                    9 => {
                        let f = self.fault(self.n * self.w);
                        let a = self.r.below(2);
                        self.push(Op::abf(OpK::VClone, a, 0, f));
                    }
                    7 => {
                        let a = self.r.below(4);
                        let f = self.fault(self.n);
                        self.push(Op::abf(OpK::VMap, a, 0, f));
                        if f > 0 && (f as usize) <= self.n {
                            self.form = F::Gone;
                        }
                    }
                    8 => {
                        let a = self.r.below(self.n as u32 + 3);
                        self.push(Op::a(OpK::VFromSlice, a));
                    }
                    0 => {
                        self.push(Op::new(OpK::VToArr));
                        self.form = F::Arr;
                    }
                    1 => {
                        self.push(Op::new(OpK::VToTup));
                        self.form = F::Tup;
                    }
                    2 => {
                        let a = self.r.below(6);
                        self.push(Op::a(OpK::SliceRead, a));
                    }
                    3 => {
                        let a = self.r.below(6);
                        let b = self.r.below(self.n as u32) | self.r.below(self.n as u32) << 8;
                        self.push(Op::ab(OpK::SliceSwap, a, b));
                    }
                    4 => {
                        let a = self.r.below(6);
                        let b = self.r.below(self.n as u32);
                        self.push(Op::ab(OpK::SliceReplace, a, b));
                    }
                    5 => {
                        let a = self.r.below(4);
                        if (a == 0 || a == 3 || a == 1) && self.faulty && self.faults_left > 0 && self.r.chance(1, 3) {
                            // F8: the formatter sink fails at its b-th write; F9 (a = 1): the hasher unwinds at its b-th write
                            self.faults_left -= 1;
                            let b = self.r.range(1, 3 * (self.n * self.w) as u32 + 8);
                            self.push(Op::abf(OpK::VObserve, a, b, 0));
                        } else {
                            let f = self.fault(self.n * self.w);
                            self.push(Op::abf(OpK::VObserve, a, 0, f));
                        }
                    }
                    _ => {
                        // through the iterator and back: v.into_iter()[pulls].collect()
                        { let a = self.r.below(2); self.push(Op::a(OpK::VIntoIter, a)); }
                        self.enter_iter();
                        let pulls = self.r.below(3);
                        for _ in 0..pulls {
                            self.pull();
                        }
                        self.collect();
                    }
                }
            }
            F::It => self.collect(),
            F::Gone => {
                self.push(Op::new(OpK::Fresh));
                self.form = F::Arr;
            }
        }
    }

    fn from_iter_stub(&mut self) {
        let n = self.n;
        let mode = if self.faulty { self.r.weighted(&[2, 3, 2, 3, 2, 1, 2]) as u32 } else { 0 };
        let j = self.r.below(n as u32 + 2);
        let hint = if self.faulty && self.r.chance(1, 3) { self.r.below(4) } else { 0 };
        let f = if mode != 3 { self.fault(n * self.w) } else { 0 };
        self.push(Op::abf(OpK::FromIterStub, mode, j | hint << 8, f));
        let src_panics = (mode == 3 && (1 + j as usize % (n + 2)) <= n) || mode == 6;
        let def_panics = f > 0 && (f as usize) <= n * self.w;
        self.form = if src_panics || def_panics { F::Gone } else { F::V };
    }

    fn enter_iter(&mut self) {
        self.form = F::It;
        self.len = self.n;
        self.front = 0;
        self.back = 0;
    }

    fn collect(&mut self) {
        let a = self.r.below(3);
        let b = self.r.below(self.len as u32 + 2);
        let f = self.fault(self.n * self.w);
        self.push(Op::abf(OpK::ItCollect, a, b, f));
        self.form = if f > 0 && (f as usize) <= self.n * self.w { F::Gone } else { F::V };
    }

    fn pull(&mut self) {
        let front = self.r.below(8) < self.front_bias;
        let k = self.keep();
        if self.en_nth && self.r.chance(1, 6) {
            let a = self.r.below(self.len as u32 + 2);
            let skipped = (a as usize % (self.len + 2)).min(self.len);
            let f = self.fault(skipped * self.w);
            self.push(Op::abf(if front { OpK::Nth } else { OpK::NthBack }, a, k, f));
            if f > 0 && (f as usize) <= skipped * self.w {
                // interrupted part-way (approximation; the executor reconciles with the iterator)
                self.pulled((f as usize + self.w - 1) / self.w, !front);
                return;
            }
            self.pulled((a as usize % (self.len + 2)) + 1, !front);
        } else {
            self.push(Op::ab(if front { OpK::Next } else { OpK::NextBack }, 0, k));
            self.pulled(1, !front);
        }
        if k == 1 {
            self.bag += 1;
        }
    }

    fn observe(&mut self) {
        let mut a = self.r.weighted(&[4, 3, 2, 2, 1, 1, 1]) as u32;
        if (a == 3 || a == 4) && !self.twin {
            if self.en_twin {
                let tf = self.r.below(self.n as u32 + 1);
                let tb = self.r.below(self.n as u32 + 1);
                // half of the time put the twin into the very same cursor state
                let (tf, tb) = if self.r.chance(1, 2) { (self.front as u32, self.back as u32) } else { (tf, tb) };
                self.push(Op::ab(OpK::TwinMake, tf, tb));
                self.twin = true;
            } else {
                a = 2;
            }
        }
        let cbs = self.len * self.w * if (2..=4).contains(&a) { 2 } else { 1 };
        if (a == 0 || a == 5 || a == 6 || a == 1) && self.faulty && self.faults_left > 0 && self.r.chance(1, 4) {
            // F8: the formatter sink fails at its k-th write; F9 (a = 1): the hasher unwinds at its k-th write
            self.faults_left -= 1;
            let b = self.r.range(1, 3 * cbs as u32 + 8);
            self.push(Op::abf(OpK::Observe, a, b, 0));
            return;
        }
        let f = self.fault(cbs);
        self.push(Op::abf(OpK::Observe, a, 0, f));
    }

    fn terminal(&mut self) {
        let c = if self.faulty { self.r.weighted(&[8, 3, 2, 2, 2, 2, 3, 3]) } else { self.r.weighted(&[8, 0, 2, 2, 2, 2, 3, 3]) };
        match c {
            7 => {
                let a = self.r.below(N_CONSUME);
                let k = self.keep();
                let f = self.fault(self.len);
                self.push(Op::abf(OpK::Consume, a, k, f));
                self.form = F::Gone;
            }
            0 => {
                let f = self.fault(self.len * self.w);
                self.push(Op::abf(OpK::Drop, 0, 0, f));
                self.form = F::Gone;
            }
            1 => {
                self.push(Op::new(OpK::Forget));
                self.form = F::Gone;
            }
            2 => {
                let k = self.keep();
                let f = self.fault(self.len.saturating_sub(1) * self.w);
                self.push(Op::abf(OpK::Last, 0, k, f));
                self.form = F::Gone;
            }
            3 => {
                let f = self.fault(self.len * self.w);
                self.push(Op::abf(OpK::Count, 0, 0, f));
                self.form = F::Gone;
            }
            4 => {
                let k = self.keep();
                let f = self.fault(self.len);
                self.push(Op::abf(OpK::Fold, 0, k, f));
                self.form = F::Gone;
            }
            5 => {
                let k = self.keep();
                let f = self.fault(self.len);
                self.push(Op::abf(OpK::Rfold, 0, k, f));
                self.form = F::Gone;
            }
            _ => self.collect(),
        }
    }

    fn history_step(&mut self) {
        // weights: pull, observe, len, take, bagdrop, twin, exhaust, inner, cloneprobe
        let w = [
            10,
            if self.en_obs { 5 } else { 0 },
            if self.en_len { 2 } else { 0 },
            if self.en_take { 2 } else { 0 },
            if self.en_bagdrop && self.bag > 0 { 3 } else { 0 },
            if self.en_twin { 1 } else { 0 },
            1,
            if self.en_inner && self.w > 1 { 5 } else { 0 },
            1,
            if self.en_adapt { 4 } else { 0 },
        ];
        match self.r.weighted(&w) {
            0 => self.pull(),
            1 => self.observe(),
            2 => {
                let k = if self.r.chance(1, 2) { OpK::Len } else { OpK::SizeHint };
                self.push(Op::new(k));
            }
            3 => {
                let a = self.r.below(self.len as u32 + 2);
                let back = self.r.chance(1, 2);
                let p = (a as usize % (self.len + 2)).min(self.len);
                let f = self.fault(p * self.w);
                self.push(Op::abf(if back { OpK::RevTakeDrop } else { OpK::TakeCount }, a, 0, f));
                let popped = if f > 0 && (f as usize) <= p * self.w { (f as usize + self.w - 1) / self.w } else { p };
                self.pulled(popped, back);
            }
            4 => {
                let a = self.r.below(self.bag as u32);
                self.push(Op::a(OpK::BagDrop, a));
                self.bag -= 1;
            }
            5 => {
                if self.twin && self.r.chance(1, 2) {
                    // the main iterator takes the twin's place (and state); track roughly
                    self.push(Op::new(OpK::SwapTwin));
                    return;
                }
                let tf = self.r.below(self.n as u32 + 1);
                let tb = self.r.below(self.n as u32 + 1);
                self.push(Op::ab(OpK::TwinMake, tf, tb));
                self.twin = true;
                if self.r.chance(1, 3) {
                    self.push(Op::new(OpK::SwapTwin));
                    let (tf, tb) = (tf as usize, (tb as usize).min(self.n - tf as usize));
                    self.front = tf;
                    self.back = tb;
                    self.len = self.n - tf - tb;
                }
            }
            6 => {
                let f = self.fault(self.len);
                self.push(Op::abf(OpK::Exhaust, 0, 0, f));
                if f > 0 && (f as usize) <= self.len {
                    self.bag += f as usize - 1;
                    self.pulled(f as usize, false);
                } else {
                    self.bag += self.len;
                    self.pulled(self.len, false);
                }
            }
            9 => self.adapt(),
            7 => self.inner_step(),
            _ => {
                let a = self.r.below(8);
                let f = self.fault(self.len.max(self.n) * self.w);
                self.push(Op::abf(OpK::CloneProbe, a, 0, f));
            }
        }
    }

    fn adapt(&mut self) {
        let which = self.r.below(N_ADAPT);
        let kraw = self.r.below(self.len as u32 + 2);
        let keep = self.keep();
        let k = kraw as usize % (self.len + 2);
        let planned = adapt_planned(which, k, self.len);
        let f = self.fault(planned);
        self.push(Op::abf(OpK::Adapt, which, kraw | keep << 8, f));
        let back = adapt_back(which);
        if f > 0 && (f as usize) <= planned {
            self.pulled(f as usize, back);
        } else {
            self.pulled(planned, back);
        }
    }

    fn inner_step(&mut self) {
        if self.inner == 0 || self.r.chance(1, 5) {
            self.push(Op::new(OpK::NextIntoInner));
            if self.len > 0 {
                self.pulled(1, false);
                self.inner = self.w + 1;
            }
            return;
        }
        match self.r.weighted(&[4, 3, 3, 1]) {
            0 => {
                self.push(Op::new(OpK::InnerNext));
                if self.inner > 1 {
                    self.inner -= 1;
                }
            }
            1 => {
                self.push(Op::new(OpK::InnerNextBack));
                if self.inner > 1 {
                    self.inner -= 1;
                }
            }
            2 => {
                let f = self.fault(self.inner - 1);
                let a = self.r.below(3);
                self.push(Op::abf(OpK::InnerObserve, a, 0, f));
            }
            _ => {
                self.push(Op::new(OpK::InnerDrop));
                self.inner = 0;
            }
        }
    }

    /// Drive the iterator to cursor state (s, e) chosen uniformly among the reachable ones.
    fn drive_to_target(&mut self) {
        let n = self.n;
        // uniform over pairs 0 <= s <= e <= n
        let total = (n + 1) * (n + 2) / 2;
        let mut x = self.r.below(total as u32) as usize;
        let mut s = 0;
        loop {
            let row = n + 1 - s;
            if x < row {
                break;
            }
            x -= row;
            s += 1;
        }
        let e = s + x;
        let mut fl = s; // pulls still to do at the front
        let mut bl = n - e;
        while fl + bl > 0 {
            let front = if fl == 0 {
                false
            } else if bl == 0 {
                true
            } else {
                self.r.below((fl + bl) as u32) < fl as u32
            };
            let left = if front { fl } else { bl };
            // occasionally jump with nth / take
            let jump = if left >= 2 && self.r.chance(1, 3) { self.r.range(2, left as u32) as usize } else { 1 };
            let k = self.keep();
            if jump == 1 {
                self.push(Op::ab(if front { OpK::Next } else { OpK::NextBack }, 0, k));
                if k == 1 {
                    self.bag += 1;
                }
            } else if self.r.chance(1, 2) {
                // nth(jump-1) pulls `jump` elements; len+2 modulus keeps a = jump-1 as is
                self.push(Op::ab(if front { OpK::Nth } else { OpK::NthBack }, jump as u32 - 1, k));
                if k == 1 {
                    self.bag += 1;
                }
            } else {
                self.push(Op::a(if front { OpK::TakeCount } else { OpK::RevTakeDrop }, jump as u32));
            }
            self.pulled(jump, !front);
            if front {
                fl -= jump;
            } else {
                bl -= jump;
            }
        }
    }

    fn vector_phase(&mut self) {
        // ---- conversion chain ----
        let chain = self.r.weighted(&[4, 4, 3, 2, 1, 1, 1]);
        for _ in 0..chain {
            self.chain_step();
        }
        // make sure we hold a vector, then consume it
        let mut guard = 0;
        while self.form != F::V && guard < 4 {
            guard += 1;
            match self.form {
                F::Arr => {
                    self.push(Op::new(OpK::ArrToV));
                    self.form = F::V;
                }
                F::Tup => {
                    self.push(Op::new(OpK::TupToV));
                    self.form = F::V;
                }
                F::It => self.collect(),
                F::Gone => {
                    self.push(Op::new(OpK::Fresh));
                    self.form = F::Arr;
                }
                F::V => {}
            }
        }
        if self.form != F::V {
            return;
        }
        if self.r.chance(1, 12) {
            // cancel a plain value instead of iterating it
            let f = self.fault(self.n * self.w);
            let k = if self.faulty && self.r.chance(1, 4) { OpK::Forget } else { OpK::Drop };
            self.push(Op::abf(k, 0, 0, f));
            self.form = F::Gone;
            return;
        }
        { let a = self.r.below(2); self.push(Op::a(OpK::VIntoIter, a)); }
        self.enter_iter();
        // ---- iterator history ----
        let targeted = self.r.chance(1, 3);
        if targeted {
            self.drive_to_target();
            let probes = self.r.range(1, 3);
            for _ in 0..probes {
                match self.r.weighted(&[6, 2, 1, 1]) {
                    0 => self.observe(),
                    1 => {
                        if self.bag > 0 {
                            let a = self.r.below(self.bag as u32);
                            self.push(Op::a(OpK::BagDrop, a));
                            self.bag -= 1;
                        }
                        self.observe();
                    }
                    2 => self.push(Op::new(OpK::Len)),
                    _ => {
                        let a = self.r.below(8);
                        let f = self.fault(self.len.max(self.n) * self.w);
                        self.push(Op::abf(OpK::CloneProbe, a, 0, f));
                    }
                }
            }
            if self.r.chance(1, 4) {
                let more = self.r.below(4);
                for _ in 0..more {
                    self.history_step();
                }
            }
        } else {
            let maxl = 2 * self.n as u32 + 6;
            // shorter histories are more likely; long ones still happen
            let hl = if self.r.chance(2, 3) { self.r.range(1, (self.n as u32 + 4).min(maxl)) } else { self.r.range(1, maxl) };
            for _ in 0..hl {
                if self.form != F::It {
                    break;
                }
                self.history_step();
            }
        }
        if self.form == F::It && self.r.chance(5, 6) {
            self.terminal();
        }
        // sometimes go round again on what is left
        if self.r.chance(1, 8) {
            if self.form == F::Gone {
                self.push(Op::new(OpK::Fresh));
                self.form = F::Arr;
                self.push(Op::new(OpK::ArrToV));
                self.form = F::V;
            }
            if self.form == F::V {
                { let a = self.r.below(2); self.push(Op::a(OpK::VIntoIter, a)); }
                self.enter_iter();
                let hl = self.r.range(1, 6);
                for _ in 0..hl {
                    if self.form != F::It {
                        break;
                    }
                    self.history_step();
                }
            }
        }
    }

    /// Matrix prefix; returns false if the run ends inside the matrix part.
    fn matrix_phase(&mut self, nm: usize) -> bool {
        #[derive(PartialEq, Clone, Copy)]
        enum MF {
            Flat,
            Nested,
            M,
        }
        let nn = (nm * nm) as u32;
        let mut mf = MF::Flat;
        let steps = self.r.range(1, 7);
        for _ in 0..steps {
            match mf {
                MF::Flat => match self.r.weighted(&[5, 3, 2]) {
                    0 => {
                        let a = self.r.below(2);
                        self.push(Op::a(OpK::MFromFlat, a));
                        mf = MF::M;
                    }
                    1 => {
                        self.push(Op::new(OpK::FlatToNested));
                        mf = MF::Nested;
                    }
                    _ => {
                        self.push(Op::new(OpK::MNew));
                        mf = MF::M;
                    }
                },
                MF::Nested => {
                    if self.r.chance(4, 5) {
                        let a = self.r.below(2);
                        self.push(Op::a(OpK::MFromNested, a));
                        mf = MF::M;
                    } else {
                        self.push(Op::new(OpK::NestedToFlat));
                        mf = MF::Flat;
                    }
                }
                MF::M => match self.r.weighted(&[4, 4, 2, 2, 2, 2, 2, 2, 2, 2, 1, 1, 2]) {
                    12 => {
                        // arithmetic and zero()/one() padded size conversions with elements that are not Copy
                        let a = self.r.below(5);
                        let b = (self.r.below(2) << 8) | self.r.below(2) | (self.r.below(4) << 16);
                        let cbs = match a {
                            0 | 1 | 2 => nm * nm,
                            _ => 7,
                        };
                        let f = self.fault(cbs);
                        self.push(Op::abf(OpK::MArith, a, b, f));
                        if f > 0 && a != 2 && (f as usize) <= cbs {
                            // the matrix is (probably) gone; the run ends here
                            return false;
                        }
                    }
                    11 => {
                        // truncating conversion to a smaller matrix type; the run ends here
                        let a = self.r.below(2);
                        if self.r.chance(1, 3) {
                            self.push(Op::new(OpK::MDiagonal));
                        } else {
                            self.push(Op::a(OpK::MShrink, a));
                        }
                        return false;
                    }
                    10 => {
                        let f = self.fault(nm * nm);
                        let a = self.r.below(2);
                        self.push(Op::abf(OpK::MClone, a, 0, f));
                    }
                    8 => {
                        let a = self.r.below(4);
                        if (a == 0 || a == 3 || a == 1) && self.faulty && self.faults_left > 0 && self.r.chance(1, 3) {
                            self.faults_left -= 1;
                            let b = self.r.range(1, 3 * (nm * nm) as u32 + 8);
                            self.push(Op::abf(OpK::MObserve, a, b, 0));
                        } else {
                            let f = self.fault(nm * nm);
                            self.push(Op::abf(OpK::MObserve, a, 0, f));
                        }
                    }
                    9 => {
                        let a = self.r.below(3);
                        let f = self.fault(if a >= 1 { nm * nm } else { nm });
                        self.push(Op::abf(OpK::MMapRows, a, 0, f));
                        if f > 0 && (f as usize) <= if a >= 1 { nm * nm } else { nm } {
                            // the matrix is gone; the run ends here
                            return false;
                        }
                    }
                    0 => {
                        let a = self.r.below(2);
                        self.push(Op::a(OpK::MIntoFlat, a));
                        mf = MF::Flat;
                    }
                    1 => {
                        let a = self.r.below(2);
                        self.push(Op::a(OpK::MIntoNested, a));
                        mf = MF::Nested;
                    }
                    2 => self.push(Op::new(OpK::MSwitchLayout)),
                    3 => {
                        let a = self.r.below(2);
                        self.push(Op::a(OpK::MTranspose, a));
                    }
                    4 => self.push(Op::new(OpK::MSliceRead)),
                    5 => {
                        let b = self.r.below(nn) | self.r.below(nn) << 8;
                        self.push(Op::ab(OpK::MSliceSwap, 0, b));
                    }
                    6 => {
                        let b = self.r.below(nn);
                        self.push(Op::ab(OpK::MSliceReplace, 0, b));
                    }
                    _ => {
                        let a = self.r.below(2);
                        let b = self.r.below(nm as u32) | self.r.below(nm as u32) << 8;
                        self.push(Op::ab(OpK::MIndex, a, b));
                    }
                },
            }
        }
        if self.r.chance(1, 6) {
            // the run ends in the matrix part: cancel whatever form is held
            let f = self.fault(nm * nm);
            let k = if self.faulty && self.r.chance(1, 3) { OpK::Forget } else { OpK::Drop };
            self.push(Op::abf(k, 0, 0, f));
            return false;
        }
        match mf {
            MF::Flat => {
                let a = self.r.below(2);
                self.push(Op::a(OpK::MFromFlat, a));
            }
            MF::Nested => {
                let a = self.r.below(2);
                self.push(Op::a(OpK::MFromNested, a));
            }
            MF::M => {}
        }
        self.push(Op::new(OpK::MTakeLines));
        true
    }
}

pub fn gen_plan(seed: u64, run: u64) -> Plan {
    let mut rng = Rng::for_run(seed, run);
    let faulty = rng.chance(1, 2);
    let kind = rng.weighted(&KIND_W);
    let dim = kind_dim(kind);
    let is_mat = kind >= N_VEC_KINDS;
    let keep_policy = rng.below(3) as u8;
    let front_bias = [4, 7, 1, 4][rng.below(4) as usize];
    let mut g = G {
        ops: Vec::with_capacity(24),
        form: F::Arr,
        n: dim,
        w: if is_mat { dim } else { 1 },
        len: 0,
        front: 0,
        back: 0,
        bag: 0,
        twin: false,
        inner: 0,
        faulty,
        faults_left: 3,
        keep_policy,
        front_bias,
        en_nth: rng.chance(3, 4),
        en_take: rng.chance(3, 4),
        en_twin: rng.chance(3, 4),
        en_obs: rng.chance(7, 8),
        en_bagdrop: rng.chance(3, 4),
        en_len: rng.chance(3, 4),
        en_inner: rng.chance(3, 4),
        en_adapt: rng.chance(3, 4),
        fault_p: [2, 4, 8][rng.below(3) as usize],
        r: &mut rng,
    };
    if is_mat {
        if g.matrix_phase(dim) {
            g.form = F::V;
            g.vector_phase();
        }
    } else {
        g.vector_phase();
    }
    let ops = g.ops;
    // element-shape swarm dimension (drawn last so that the plans of earlier versions keep their shape)
    let elem = if is_mat { [0, 0, 0, 0, 0, 0, 0, 0, 0, 0, 3, 1, 1, 1, 2, 2][rng.below(16) as usize] } else { [0, 0, 0, 0, 0, 0, 0, 0, 0, 3, 1, 1, 1, 1, 2, 2][rng.below(16) as usize] };
    // a quarter of the runs give every element the same payload value, so that comparisons
    // between iterators in different cursor states do not stop at the first pair
    let uniform = rng.chance(1, 4);
    Plan { kind, faulty, elem, uniform, ops }
}
