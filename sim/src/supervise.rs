//! Crash and hang isolation. The batch runs in a child process; when that process dies on a
//! signal (or stops making progress) the supervisor reads the per-worker in-flight markers,
//! re-executes the suspect runs one per child process to pin the culprit, minimises it with
//! one child per candidate and writes a replay file like for any other violation.
//!
//! The harness itself has no undefined behaviour (plain-data elements, bounds-checked ledger),
//! so an abnormal death can only come out of the code under test.

use std::path::{Path, PathBuf};
use std::process::{Command, Stdio};
use std::time::{Duration, Instant};

use crate::engine::*;
use crate::gen::gen_plan;
use crate::json::J;
use crate::ops::*;
use crate::run::{plan_hash, Outcome};
use crate::tok::{Violation, V11_ABNORMAL_TERMINATION};

#[derive(Clone, Debug, PartialEq)]
pub enum Iso {
    Exit(i32),
    Signal(i32),
    Timeout,
    SpawnError(String),
}
impl Iso {
    pub fn abnormal(&self) -> bool {
        matches!(self, Iso::Signal(_) | Iso::Timeout)
    }
    pub fn describe(&self) -> String {
        match self {
            Iso::Exit(c) => format!("exit status {}", c),
            Iso::Signal(s) => format!("killed by signal {}{}", s, match s {
                11 => " (SIGSEGV)",
                6 => " (SIGABRT)",
                7 => " (SIGBUS)",
                4 => " (SIGILL)",
                _ => "",
            }),
            Iso::Timeout => "did not terminate (killed by the watchdog)".to_string(),
            Iso::SpawnError(e) => format!("could not be started: {}", e),
        }
    }
}

fn self_exe() -> PathBuf {
    std::env::current_exe().expect("current_exe")
}

/// Run `vek-sim <args>` in a fresh process with a wall-clock limit. stderr goes to `errfile`.
pub fn run_isolated(args: &[String], timeout: Duration, errfile: Option<&Path>) -> Iso {
    let mut cmd = Command::new(self_exe());
    cmd.args(args).stdin(Stdio::null()).stdout(Stdio::null());
    match errfile.and_then(|p| std::fs::File::create(p).ok()) {
        Some(f) => {
            cmd.stderr(Stdio::from(f));
        }
        None => {
            cmd.stderr(Stdio::null());
        }
    }
    let mut child = match cmd.spawn() {
        Ok(c) => c,
        Err(e) => return Iso::SpawnError(e.to_string()),
    };
    let t0 = Instant::now();
    loop {
        match child.try_wait() {
            Ok(Some(st)) => {
                use std::os::unix::process::ExitStatusExt;
                return match (st.code(), st.signal()) {
                    (Some(c), _) => Iso::Exit(c),
                    (None, Some(sig)) => Iso::Signal(sig),
                    _ => Iso::Signal(0),
                };
            }
            Ok(None) => {}
            Err(e) => return Iso::SpawnError(e.to_string()),
        }
        if t0.elapsed() > timeout {
            let _ = child.kill();
            let _ = child.wait();
            return Iso::Timeout;
        }
        std::thread::sleep(Duration::from_millis(if t0.elapsed() < Duration::from_millis(200) { 2 } else { 25 }));
    }
}

fn read_markers(dir: &Path) -> (String, Vec<u64>) {
    let phase = std::fs::read_to_string(dir.join("phase")).unwrap_or_default();
    let mut chunks = Vec::new();
    if let Ok(rd) = std::fs::read_dir(dir) {
        let mut names: Vec<PathBuf> = rd.filter_map(|e| e.ok()).map(|e| e.path()).collect();
        names.sort();
        for p in names {
            let is_marker = p.file_name().and_then(|n| n.to_str()).map(|n| n.starts_with('w')).unwrap_or(false);
            if !is_marker {
                continue;
            }
            if let Ok(t) = std::fs::read_to_string(&p) {
                if let Ok(c) = t.trim().parse::<u64>() {
                    chunks.push(c);
                }
            }
        }
    }
    (phase, chunks)
}

/// Last `step N:` line of a live trace.
fn last_step_of(errfile: &Path) -> Option<u32> {
    let txt = std::fs::read(errfile).ok()?;
    let tail = if txt.len() > 1 << 20 { &txt[txt.len() - (1 << 20)..] } else { &txt[..] };
    let s = String::from_utf8_lossy(tail);
    let mut last = None;
    for l in s.lines() {
        if let Some(rest) = l.trim_start().strip_prefix("step ") {
            if let Some(n) = rest.split(':').next().and_then(|x| x.trim().parse::<u32>().ok()) {
                last = Some(n);
            }
        }
    }
    last
}

fn opk_at(plan: &Plan, step: Option<u32>) -> Option<OpK> {
    step.and_then(|s| plan.ops.get(s as usize)).map(|o| o.k)
}

pub struct Abnormal {
    pub run: u64,
    pub plan: Plan,
    pub outcome: Outcome,
    pub how: Iso,
    pub isolated_executions: u64,
    pub distinct_plans: u64,
}

fn exec_plan_isolated(dir: &Path, plan: &Plan, timeout: Duration, n: &mut u64) -> (Iso, Option<u32>) {
    let pf = dir.join("cand.json");
    let ef = dir.join("cand.err");
    let _ = std::fs::write(&pf, plan_to_json(plan).pretty());
    *n += 1;
    let r = run_isolated(&["exec-plan".into(), pf.to_string_lossy().to_string(), "--live".into()], timeout, Some(&ef));
    let step = if r.abnormal() { last_step_of(&ef) } else { None };
    (r, step)
}

fn synth_outcome(plan: &Plan, how: &Iso, step: Option<u32>) -> Outcome {
    Outcome {
        violation: Some(Violation {
            class: V11_ABNORMAL_TERMINATION,
            step: step.unwrap_or(u32::MAX),
            detail: format!("the process executing this history {} — memory was corrupted, an element was used after it was moved out, or the container never stopped yielding", how.describe()),
        }),
        viol_op: opk_at(plan, step),
        digest: 0,
        nevents: 0,
        executed: 0,
        skipped: 0,
        nontrivial: true,
        harness_error: None,
        trace: Vec::new(),
    }
}

/// Find the lowest run among the suspect chunks that dies abnormally on its own, and shrink it.
pub fn triage(dir: &Path, seed: u64, runs: u64, suspects: &[u64], hang: bool) -> Result<Abnormal, String> {
    let mut n_iso = 0u64;
    let mut hashes: Vec<u64> = Vec::new();
    let chunk_to = Duration::from_secs(if hang { 30 } else { 120 });
    let run_to = Duration::from_secs(if hang { 10 } else { 30 });
    let mut sus: Vec<u64> = suspects.iter().copied().filter(|c| c.saturating_mul(CHUNK) < runs).collect();
    sus.sort();
    sus.dedup();
    for c in sus {
        let lo = c * CHUNK;
        let hi = (lo + CHUNK).min(runs);
        n_iso += 1;
        let r = run_isolated(&["digest".into(), "--seed".into(), seed.to_string(), "--start".into(), lo.to_string(), "--count".into(), (hi - lo).to_string(), "--workers".into(), "1".into()], chunk_to, None);
        if !r.abnormal() {
            continue;
        }
        for run in lo..hi {
            let plan = gen_plan(seed, run);
            let (r1, step) = exec_plan_isolated(dir, &plan, run_to, &mut n_iso);
            hashes.push(plan_hash(&plan));
            if !r1.abnormal() {
                continue;
            }
            // shrink, one child per candidate
            let want_timeout = r1 == Iso::Timeout;
            let o = synth_outcome(&plan, &r1, step);
            let cand_to = if want_timeout { Duration::from_secs(5) } else { run_to };
            let mut how = r1.clone();
            let mut pred = |cand: &Plan| -> Option<Outcome> {
                let (rc, st) = exec_plan_isolated(dir, cand, cand_to, &mut n_iso);
                hashes.push(plan_hash(cand));
                if rc.abnormal() && (rc == Iso::Timeout) == want_timeout {
                    how = rc.clone();
                    Some(synth_outcome(cand, &rc, st))
                } else {
                    None
                }
            };
            let (mp, mo, _tried) = minimise_with(&plan, &o, if want_timeout { 60 } else { 300 }, &mut pred);
            hashes.sort();
            hashes.dedup();
            return Ok(Abnormal { run, plan: mp, outcome: mo, how, isolated_executions: n_iso, distinct_plans: hashes.len() as u64 });
        }
        return Err(format!("runs {}..{} of seed {} die abnormally together ({}) but none of them does on its own", lo, hi, seed, r.describe()));
    }
    Err("the batch process died abnormally but none of the runs that were in flight reproduces that in isolation".to_string())
}

pub struct SuperviseCfg {
    pub seed: u64,
    pub runs: u64,
    pub tier: String,
    pub evidence: String,
    pub replays: String,
    pub hang_s: u64,
}

/// Run the real check in a child; pass its verdict through, or triage an abnormal death.
pub fn supervise(child_args: Vec<String>, cfg: &SuperviseCfg) -> i32 {
    let t0 = Instant::now();
    let dir = PathBuf::from(&cfg.replays).join(format!(".inflight-{}", std::process::id()));
    let _ = std::fs::remove_dir_all(&dir);
    if std::fs::create_dir_all(&dir).is_err() {
        eprintln!("harness error: cannot create {}", dir.display());
        return 2;
    }
    let mut args = child_args;
    args.push("--inner".into());
    args.push("--inflight".into());
    args.push(dir.to_string_lossy().to_string());
    let mut child = match Command::new(self_exe()).args(&args).stdin(Stdio::null()).spawn() {
        Ok(c) => c,
        Err(e) => {
            eprintln!("harness error: cannot start the batch process: {}", e);
            return 2;
        }
    };
    let mut last_progress = Instant::now();
    let mut last_seen: (String, Vec<u64>) = (String::new(), Vec::new());
    let status: Iso = loop {
        match child.try_wait() {
            Ok(Some(st)) => {
                use std::os::unix::process::ExitStatusExt;
                break match (st.code(), st.signal()) {
                    (Some(c), _) => Iso::Exit(c),
                    (None, Some(sig)) => Iso::Signal(sig),
                    _ => Iso::Signal(0),
                };
            }
            Ok(None) => {}
            Err(e) => {
                eprintln!("harness error: waiting for the batch process: {}", e);
                return 2;
            }
        }
        let now = read_markers(&dir);
        if now != last_seen {
            last_seen = now;
            last_progress = Instant::now();
        } else if last_seen.0 == "search" && last_progress.elapsed() > Duration::from_secs(cfg.hang_s) {
            let _ = child.kill();
            let _ = child.wait();
            break Iso::Timeout;
        }
        std::thread::sleep(Duration::from_millis(50));
    };
    let code = match &status {
        Iso::Exit(c) => {
            let _ = std::fs::remove_dir_all(&dir);
            return *c;
        }
        other => other.clone(),
    };
    let (phase, suspects) = read_markers(&dir);
    println!("the batch process {} during phase '{}'; isolating the runs that were in flight (chunks {:?})", code.describe(), phase, suspects);
    if phase != "search" {
        eprintln!("harness error: abnormal termination outside the search phase");
        let _ = std::fs::remove_dir_all(&dir);
        return 2;
    }
    let ab = match triage(&dir, cfg.seed, cfg.runs, &suspects, code == Iso::Timeout) {
        Ok(a) => a,
        Err(e) => {
            eprintln!("harness error: {}", e);
            let _ = std::fs::remove_dir_all(&dir);
            return 2;
        }
    };
    let _ = std::fs::create_dir_all(&cfg.replays);
    let path = format!("{}/C18-{}-{}.json", cfg.replays, cfg.seed, ab.run);
    let orig_len = gen_plan(cfg.seed, ab.run).ops.len();
    if let Err(e) = write_replay(&path, cfg.seed, ab.run, &ab.plan, &ab.outcome, true, orig_len, ab.isolated_executions as u32) {
        eprintln!("harness error: cannot write {}: {}", path, e);
        return 2;
    }
    // the replay must reproduce in a fresh process
    let rr = run_isolated(&["replay".into(), path.clone(), "--quiet".into()], Duration::from_secs(120), None);
    if rr != Iso::Exit(1) {
        eprintln!("harness error: replay of {} did not reproduce ({})", path, rr.describe());
        let _ = std::fs::remove_dir_all(&dir);
        return 2;
    }
    let v = ab.outcome.violation.as_ref().unwrap();
    println!("violation in run {} of seed {}: V11-abnormal-termination at step {}: {}", ab.run, cfg.seed, v.step as i64, v.detail);
    println!("minimised {} -> {} operations; container {}", orig_len, ab.plan.ops.len(), kind_name(ab.plan.kind));
    println!("VIOLATION property=C18 replay={}", path);
    // evidence: only what this (abnormal) path measured itself
    let ev = J::obj(vec![
        ("property_id", J::s("C18")),
        ("tier", J::s(cfg.tier.clone())),
        ("seed", J::i(cfg.seed as i64)),
        ("level", J::s("exploration")),
        (
            "coverage",
            J::obj(vec![
                ("evaluations", J::i(ab.isolated_executions as i64)),
                ("distinct_nontrivial", J::i(ab.distinct_plans as i64)),
                ("rule", J::s("The batch process died abnormally; this file describes the triage only: each evaluation is one history executed in its own child process (suspect runs, then minimisation candidates); distinct = distinct plan hashes among them.")),
                ("samples", J::Arr(vec![plan_to_json(&ab.plan)])),
                ("batch_process", J::s(code.describe())),
                ("violation", J::obj(vec![("run", J::i(ab.run as i64)), ("replay", J::s(path.clone())), ("violation", violation_to_json(v, ab.outcome.viol_op)), ("minimised_plan", plan_to_json(&ab.plan))])),
            ]),
        ),
        ("assumptions", J::Arr(vec![J::s("the harness has no undefined behaviour of its own, so an abnormal death comes from the code under test")])),
        ("wall_s", J::Num((t0.elapsed().as_secs_f64() * 1000.0).round() / 1000.0)),
        ("violations", J::i(1)),
    ]);
    let _ = std::fs::write(&cfg.evidence, ev.pretty());
    let _ = std::fs::remove_dir_all(&dir);
    1
}
