//! Matrices: adapters for Mat2/3/4 in both storage layouts and the executor for the matrix
//! part of a run (array / nested-array conversions, slice views, layout switch), which then
//! hands the public `rows` / `cols` vector-of-vectors over to the vector executor.

use crate::adapters::*;
use crate::exec::*;
use crate::ops::*;
use crate::stats::*;
use crate::tok::{self, m, *};

/// One matrix size, both layouts. Ground truth for "(i, j)" is direct public-field access:
/// `m.rows.<i>.<j>` for row-major, `m.cols.<j>.<i>` for column-major (Rust field semantics).
pub trait MatFam<L: Leaf>: 'static {
    const N: usize;
    type RM: 'static;
    type CM: 'static;
    type Flat: 'static;
    type Nested: 'static;
    type Line: Item<Leaf = L>;
    type LK: Kind<Self::Line>;

    // harness plumbing (std only)
    fn flat_from_vec(v: Vec<L>) -> Self::Flat;
    fn flat_get(f: &Self::Flat, k: usize) -> &L;
    fn nested_from_flat(f: Self::Flat) -> Self::Nested;
    fn flat_from_nested(f: Self::Nested) -> Self::Flat;
    fn nested_get(f: &Self::Nested, a: usize, b: usize) -> &L;

    // real vek code, row-major type
    fn rm_from_flat(f: Self::Flat, by_cols: bool) -> Self::RM;
    fn rm_from_nested(f: Self::Nested, by_cols: bool) -> Self::RM;
    fn rm_into_flat(m: Self::RM, by_cols: bool) -> Self::Flat;
    fn rm_into_nested(m: Self::RM, by_cols: bool) -> Self::Nested;
    fn rm_new(f: Self::Flat) -> Self::RM;
    fn rm_field(m: &Self::RM, i: usize, j: usize) -> &L;
    fn rm_slice(m: &Self::RM) -> &[L];
    fn rm_ptrs(m: &mut Self::RM) -> (*const L, *const L);
    fn rm_slice_mut(m: &mut Self::RM) -> &mut [L];
    fn rm_index(m: &Self::RM, i: usize, j: usize) -> &L;
    fn rm_index_mut(m: &mut Self::RM, i: usize, j: usize) -> &mut L;
    fn rm_transposed(m: Self::RM) -> Self::RM;
    fn rm_transpose(m: &mut Self::RM);
    fn rm_to_cm(m: Self::RM) -> Self::CM;
    fn rm_lines(m: Self::RM) -> <Self::LK as Kind<Self::Line>>::V;
    fn rm_observe(m: &Self::RM, kind: u32);
    fn rm_clone(m: &Self::RM) -> Self::RM;
    fn rm_clone_from(dst: &mut Self::RM, src: &Self::RM);
    fn rm_map_lines<G: FnMut(Self::Line) -> Self::Line>(m: Self::RM, g: G) -> Self::RM;
    fn rm_map<G: FnMut(L) -> L>(m: Self::RM, g: G) -> Self::RM;
    fn rm_map2<G: FnMut(L, L) -> L>(m: Self::RM, o: Self::RM, g: G) -> Self::RM;
    fn rm_diagonal(m: Self::RM) -> Self::Line;

    // real vek code, column-major type
    fn cm_from_flat(f: Self::Flat, by_cols: bool) -> Self::CM;
    fn cm_from_nested(f: Self::Nested, by_cols: bool) -> Self::CM;
    fn cm_into_flat(m: Self::CM, by_cols: bool) -> Self::Flat;
    fn cm_into_nested(m: Self::CM, by_cols: bool) -> Self::Nested;
    fn cm_new(f: Self::Flat) -> Self::CM;
    fn cm_field(m: &Self::CM, i: usize, j: usize) -> &L;
    fn cm_slice(m: &Self::CM) -> &[L];
    fn cm_ptrs(m: &mut Self::CM) -> (*const L, *const L);
    fn cm_slice_mut(m: &mut Self::CM) -> &mut [L];
    fn cm_index(m: &Self::CM, i: usize, j: usize) -> &L;
    fn cm_index_mut(m: &mut Self::CM, i: usize, j: usize) -> &mut L;
    fn cm_transposed(m: Self::CM) -> Self::CM;
    fn cm_transpose(m: &mut Self::CM);
    fn cm_to_rm(m: Self::CM) -> Self::RM;
    fn cm_lines(m: Self::CM) -> <Self::LK as Kind<Self::Line>>::V;
    fn cm_observe(m: &Self::CM, kind: u32);
    fn cm_clone(m: &Self::CM) -> Self::CM;
    fn cm_clone_from(dst: &mut Self::CM, src: &Self::CM);
    fn cm_map_lines<G: FnMut(Self::Line) -> Self::Line>(m: Self::CM, g: G) -> Self::CM;
    fn cm_map<G: FnMut(L) -> L>(m: Self::CM, g: G) -> Self::CM;
    fn cm_map2<G: FnMut(L, L) -> L>(m: Self::CM, o: Self::CM, g: G) -> Self::CM;
    fn cm_diagonal(m: Self::CM) -> Self::Line;

    /// truncating conversions to the smaller matrix types (`Mat3::from(Mat4)`, `Mat2::from(Mat4)`,
    /// `Mat2::from(Mat3)`; no bound on the element type): how many this size has
    const SHRINKS: usize;
    /// -> (the smaller matrix, kept alive; its size k; its ids by (row, column), read through plain field access)
    fn rm_shrink(m: Self::RM, which: usize) -> (Box<dyn std::any::Any>, usize, Vec<u32>);
    fn cm_shrink(m: Self::CM, which: usize) -> (Box<dyn std::any::Any>, usize, Vec<u32>);

    // arithmetic and zero / one padded conversions with an element type that is not Copy (operation `MArith`)
    fn rm_add(a: Self::RM, b: Self::RM, which: u32) -> Self::RM;
    fn cm_add(a: Self::CM, b: Self::CM, which: u32) -> Self::CM;
    fn rm_neg(a: Self::RM) -> Self::RM;
    fn cm_neg(a: Self::CM) -> Self::CM;
    fn rm_default() -> Self::RM;
    fn cm_default() -> Self::CM;
    /// sizes of the two other matrix types, in the order `*_via` takes them
    const VIA: [usize; 2];
    /// through another matrix size and back: `Self::from(Other::from(m))`
    fn rm_via(m: Self::RM, which: usize) -> Self::RM;
    fn cm_via(m: Self::CM, which: usize) -> Self::CM;
}

fn ids_rm<S: MatFam<L>, L: Leaf>(m: &S::RM) -> Vec<u32> {
    let mut v = Vec::with_capacity(S::N * S::N);
    for i in 0..S::N {
        for j in 0..S::N {
            v.push(S::rm_field(m, i, j).grp().first());
        }
    }
    v
}
fn ids_cm<S: MatFam<L>, L: Leaf>(m: &S::CM) -> Vec<u32> {
    let mut v = Vec::with_capacity(S::N * S::N);
    for i in 0..S::N {
        for j in 0..S::N {
            v.push(S::cm_field(m, i, j).grp().first());
        }
    }
    v
}

fn plan_of_default(f: u32) -> Option<(Cb, u32)> {
    if f > 0 {
        Some((Cb::Default, f))
    } else {
        None
    }
}

fn observe_any<M: std::fmt::Debug + std::fmt::Display + std::hash::Hash + PartialEq>(m: &M, kind: u32) {
    use std::fmt::Write;
    use std::hash::Hasher;
    match kind % 4 {
        0 => {
            let mut w = NullWriter(0);
            let _ = write!(w, "{:?}", m);
        }
        1 => {
            let mut h = StubHasher::new();
            m.hash(&mut h);
            let _ = h.finish();
        }
        2 => {
            let _ = m == m;
        }
        _ => {
            let mut w = NullWriter(0);
            let _ = write!(w, "{}", m);
        }
    }
}

macro_rules! line_field {
    ($l:expr, $j:expr, [$($f:ident)+], [$($i:tt)+]) => {
        match $j { $($i => &$l.$f,)+ _ => panic!("harness: line field") }
    };
}

macro_rules! matfam {
    ($F:ident, $n:expr, $nn:expr, $Mat:ident, $Vec:ident, $LK:ident, [$($f:ident)+], [$($i:tt)+], [$($nm:ident)+], [$($S:ident)*], [$V0:ident $v0:expr, $V1:ident $v1:expr]) => {
        pub struct $F;
        impl<L: Leaf> MatFam<L> for $F {
            const N: usize = $n;
            type RM = vek::mat::repr_c::row_major::$Mat<L>;
            type CM = vek::mat::repr_c::column_major::$Mat<L>;
            type Flat = [L; $nn];
            type Nested = [[L; $n]; $n];
            type Line = vek::vec::repr_c::$Vec<L>;
            type LK = $LK;

            fn flat_from_vec(v: Vec<L>) -> Self::Flat {
                match <[L; $nn]>::try_from(v) { Ok(a) => a, Err(_) => panic!("harness: flat size") }
            }
            #[inline]
            fn flat_get(f: &Self::Flat, k: usize) -> &L { &f[k] }
            fn nested_from_flat(f: Self::Flat) -> Self::Nested {
                let mut it = f.into_iter();
                std::array::from_fn(|_| std::array::from_fn(|_| it.next().expect("harness: nested")))
            }
            fn flat_from_nested(f: Self::Nested) -> Self::Flat {
                let mut it = f.into_iter().flatten();
                std::array::from_fn(|_| it.next().expect("harness: flat"))
            }
            #[inline]
            fn nested_get(f: &Self::Nested, a: usize, b: usize) -> &L { &f[a][b] }

            fn rm_from_flat(f: Self::Flat, by_cols: bool) -> Self::RM {
                if by_cols { Self::RM::from_col_array(f) } else { Self::RM::from_row_array(f) }
            }
            fn rm_from_nested(f: Self::Nested, by_cols: bool) -> Self::RM {
                if by_cols { Self::RM::from_col_arrays(f) } else { Self::RM::from_row_arrays(f) }
            }
            fn rm_into_flat(m: Self::RM, by_cols: bool) -> Self::Flat {
                if by_cols { m.into_col_array() } else { m.into_row_array() }
            }
            fn rm_into_nested(m: Self::RM, by_cols: bool) -> Self::Nested {
                if by_cols { m.into_col_arrays() } else { m.into_row_arrays() }
            }
            fn rm_new(f: Self::Flat) -> Self::RM {
                let [$($nm),+] = f;
                Self::RM::new($($nm),+)
            }
            #[inline]
            fn rm_field(m: &Self::RM, i: usize, j: usize) -> &L {
                let line = match i { $($i => &m.rows.$f,)+ _ => panic!("harness: row index") };
                line_field!(line, j, [$($f)+], [$($i)+])
            }
            fn rm_slice(m: &Self::RM) -> &[L] { m.as_row_slice() }
            fn rm_ptrs(m: &mut Self::RM) -> (*const L, *const L) { (m.as_row_ptr(), m.as_mut_row_ptr() as *const L) }
            fn rm_slice_mut(m: &mut Self::RM) -> &mut [L] { m.as_mut_row_slice() }
            fn rm_index(m: &Self::RM, i: usize, j: usize) -> &L { &m[(i, j)] }
            fn rm_index_mut(m: &mut Self::RM, i: usize, j: usize) -> &mut L { &mut m[(i, j)] }
            fn rm_transposed(m: Self::RM) -> Self::RM { m.transposed() }
            fn rm_transpose(m: &mut Self::RM) { m.transpose() }
            fn rm_to_cm(m: Self::RM) -> Self::CM { Self::CM::from(m) }
            fn rm_lines(m: Self::RM) -> <Self::LK as Kind<Self::Line>>::V { m.rows }
            fn rm_observe(m: &Self::RM, kind: u32) { observe_any(m, kind) }
            fn rm_clone(m: &Self::RM) -> Self::RM { m.clone() }
            fn rm_clone_from(dst: &mut Self::RM, src: &Self::RM) { dst.clone_from(src) }
            fn rm_map_lines<G: FnMut(Self::Line) -> Self::Line>(m: Self::RM, g: G) -> Self::RM { m.map_rows(g) }
            fn rm_map<G: FnMut(L) -> L>(m: Self::RM, g: G) -> Self::RM { m.map(g) }
            fn rm_map2<G: FnMut(L, L) -> L>(m: Self::RM, o: Self::RM, g: G) -> Self::RM { m.map2(o, g) }
            fn rm_diagonal(m: Self::RM) -> Self::Line { m.diagonal() }

            fn cm_from_flat(f: Self::Flat, by_cols: bool) -> Self::CM {
                if by_cols { Self::CM::from_col_array(f) } else { Self::CM::from_row_array(f) }
            }
            fn cm_from_nested(f: Self::Nested, by_cols: bool) -> Self::CM {
                if by_cols { Self::CM::from_col_arrays(f) } else { Self::CM::from_row_arrays(f) }
            }
            fn cm_into_flat(m: Self::CM, by_cols: bool) -> Self::Flat {
                if by_cols { m.into_col_array() } else { m.into_row_array() }
            }
            fn cm_into_nested(m: Self::CM, by_cols: bool) -> Self::Nested {
                if by_cols { m.into_col_arrays() } else { m.into_row_arrays() }
            }
            fn cm_new(f: Self::Flat) -> Self::CM {
                let [$($nm),+] = f;
                Self::CM::new($($nm),+)
            }
            #[inline]
            fn cm_field(m: &Self::CM, i: usize, j: usize) -> &L {
                let line = match j { $($i => &m.cols.$f,)+ _ => panic!("harness: col index") };
                line_field!(line, i, [$($f)+], [$($i)+])
            }
            fn cm_slice(m: &Self::CM) -> &[L] { m.as_col_slice() }
            fn cm_ptrs(m: &mut Self::CM) -> (*const L, *const L) { (m.as_col_ptr(), m.as_mut_col_ptr() as *const L) }
            fn cm_slice_mut(m: &mut Self::CM) -> &mut [L] { m.as_mut_col_slice() }
            fn cm_index(m: &Self::CM, i: usize, j: usize) -> &L { &m[(i, j)] }
            fn cm_index_mut(m: &mut Self::CM, i: usize, j: usize) -> &mut L { &mut m[(i, j)] }
            fn cm_transposed(m: Self::CM) -> Self::CM { m.transposed() }
            fn cm_transpose(m: &mut Self::CM) { m.transpose() }
            fn cm_to_rm(m: Self::CM) -> Self::RM { Self::RM::from(m) }
            fn cm_lines(m: Self::CM) -> <Self::LK as Kind<Self::Line>>::V { m.cols }
            fn cm_observe(m: &Self::CM, kind: u32) { observe_any(m, kind) }
            fn cm_clone(m: &Self::CM) -> Self::CM { m.clone() }
            fn cm_clone_from(dst: &mut Self::CM, src: &Self::CM) { dst.clone_from(src) }
            fn cm_map_lines<G: FnMut(Self::Line) -> Self::Line>(m: Self::CM, g: G) -> Self::CM { m.map_cols(g) }
            fn cm_map<G: FnMut(L) -> L>(m: Self::CM, g: G) -> Self::CM { m.map(g) }
            fn cm_map2<G: FnMut(L, L) -> L>(m: Self::CM, o: Self::CM, g: G) -> Self::CM { m.map2(o, g) }
            fn cm_diagonal(m: Self::CM) -> Self::Line { m.diagonal() }

            const SHRINKS: usize = 0 $(+ { let _ = <$S as MatFam<L>>::N; 1 })*;
            #[allow(unused_assignments, unused_mut, unused_variables, unreachable_code)]
            fn rm_shrink(m: Self::RM, which: usize) -> (Box<dyn std::any::Any>, usize, Vec<u32>) {
                let mut idx = 0usize;
                $(
                    if which == idx {
                        let s = <<$S as MatFam<L>>::RM as From<Self::RM>>::from(m);
                        let ids = ids_rm::<$S, L>(&s);
                        return (Box::new(s), <$S as MatFam<L>>::N, ids);
                    }
                    idx += 1;
                )*
                panic!("harness: no such truncating conversion")
            }
            #[allow(unused_assignments, unused_mut, unused_variables, unreachable_code)]
            fn cm_shrink(m: Self::CM, which: usize) -> (Box<dyn std::any::Any>, usize, Vec<u32>) {
                let mut idx = 0usize;
                $(
                    if which == idx {
                        let s = <<$S as MatFam<L>>::CM as From<Self::CM>>::from(m);
                        let ids = ids_cm::<$S, L>(&s);
                        return (Box::new(s), <$S as MatFam<L>>::N, ids);
                    }
                    idx += 1;
                )*
                panic!("harness: no such truncating conversion")
            }

            fn rm_add(a: Self::RM, b: Self::RM, which: u32) -> Self::RM { match which % 4 { 0 => a + b, 1 => a - b, 2 => a / b, _ => a % b } }
            fn cm_add(a: Self::CM, b: Self::CM, which: u32) -> Self::CM { match which % 4 { 0 => a + b, 1 => a - b, 2 => a / b, _ => a % b } }
            fn rm_neg(a: Self::RM) -> Self::RM { -a }
            fn cm_neg(a: Self::CM) -> Self::CM { -a }
            fn rm_default() -> Self::RM { <Self::RM as Default>::default() }
            fn cm_default() -> Self::CM { <Self::CM as Default>::default() }
            const VIA: [usize; 2] = [$v0, $v1];
            fn rm_via(m: Self::RM, which: usize) -> Self::RM {
                if which == 0 {
                    Self::RM::from(vek::mat::repr_c::row_major::$V0::<L>::from(m))
                } else {
                    Self::RM::from(vek::mat::repr_c::row_major::$V1::<L>::from(m))
                }
            }
            fn cm_via(m: Self::CM, which: usize) -> Self::CM {
                if which == 0 {
                    Self::CM::from(vek::mat::repr_c::column_major::$V0::<L>::from(m))
                } else {
                    Self::CM::from(vek::mat::repr_c::column_major::$V1::<L>::from(m))
                }
            }
        }
    };
}

matfam!(Fam2, 2, 4, Mat2, Vec2, KVec2, [x y], [0 1], [m0 m1 m2 m3], [], [Mat3 3, Mat4 4]);
matfam!(Fam3, 3, 9, Mat3, Vec3, KVec3, [x y z], [0 1 2], [m0 m1 m2 m3 m4 m5 m6 m7 m8], [Fam2], [Mat4 4, Mat2 2]);
matfam!(Fam4, 4, 16, Mat4, Vec4, KVec4, [x y z w], [0 1 2 3], [m0 m1 m2 m3 m4 m5 m6 m7 m8 m9 m10 m11 m12 m13 m14 m15], [Fam3 Fam2], [Mat3 3, Mat2 2]);

pub enum MForm<F: MatFam<L>, L: Leaf> {
    Flat(F::Flat),
    Nested(F::Nested),
    RM(F::RM),
    CM(F::CM),
    Gone,
}

pub struct MatExec<F: MatFam<L>, L: Leaf> {
    pub form: MForm<F, L>,
    /// ids in storage order while Flat / Nested (nested[a][b] = list[a*n+b])
    pub list: Vec<u32>,
    /// ids by (row, column) while a matrix
    pub grid: Vec<u32>,
    pub home_cm: bool,
    /// how the elements entered the matrix last: 0 rows, 1 cols, 2 new()
    pub entered: u8,
}

impl<F: MatFam<L>, L: Leaf> MatExec<F, L> {
    pub fn new(home_cm: bool) -> Self {
        MatExec { form: MForm::Gone, list: Vec::new(), grid: Vec::new(), home_cm, entered: 2 }
    }

    pub fn start_fresh(&mut self, st: &mut Stats) {
        let nn = F::N * F::N;
        let toks: Vec<L> = (0..nn as u32).map(|p| L::mk(p * 4, OWN_MAIN)).collect();
        st.elements_created += nn as u64;
        self.list = toks.iter().map(|t| t.lid()).collect();
        self.form = MForm::Flat(F::flat_from_vec(toks));
    }

    fn read(t: &L) -> u32 {
        t.grp().first()
    }

    fn field(&self, i: usize, j: usize) -> Option<&L> {
        match &self.form {
            MForm::RM(m) => Some(F::rm_field(m, i, j)),
            MForm::CM(m) => Some(F::cm_field(m, i, j)),
            _ => None,
        }
    }

    /// Read everything back through plain field / array access and compare with the model (V5).
    fn check(&mut self, after: &str) {
        let n = F::N;
        match &self.form {
            MForm::Flat(f) => {
                for k in 0..n * n {
                    let id = Self::read(F::flat_get(f, k));
                    if id != self.list[k] {
                        tok::raise(V5_ORDER, format!("after {}: array entry {} holds id {}, documented order says {}", after, k, id, self.list[k]));
                        return;
                    }
                }
            }
            MForm::Nested(f) => {
                for a in 0..n {
                    for b in 0..n {
                        let id = Self::read(F::nested_get(f, a, b));
                        if id != self.list[a * n + b] {
                            tok::raise(V5_ORDER, format!("after {}: nested array entry [{}][{}] holds id {}, documented order says {}", after, a, b, id, self.list[a * n + b]));
                            return;
                        }
                    }
                }
            }
            MForm::RM(_) | MForm::CM(_) => {
                for i in 0..n {
                    for j in 0..n {
                        let id = Self::read(self.field(i, j).unwrap());
                        if id != self.grid[i * n + j] {
                            tok::raise(V5_ORDER, format!("after {}: element (row {}, column {}) holds id {}, documented order says {}", after, i, j, id, self.grid[i * n + j]));
                            return;
                        }
                    }
                }
            }
            MForm::Gone => {}
        }
    }

    fn grid_from_list(&mut self, by_cols: bool) {
        let n = F::N;
        let mut g = vec![0u32; n * n];
        for i in 0..n {
            for j in 0..n {
                g[i * n + j] = if by_cols { self.list[j * n + i] } else { self.list[i * n + j] };
            }
        }
        self.grid = g;
        self.list.clear();
    }
    fn list_from_grid(&mut self, by_cols: bool) {
        let n = F::N;
        let mut l = vec![0u32; n * n];
        for i in 0..n {
            for j in 0..n {
                if by_cols {
                    l[j * n + i] = self.grid[i * n + j];
                } else {
                    l[i * n + j] = self.grid[i * n + j];
                }
            }
        }
        self.list = l;
        self.grid.clear();
    }

    fn ids(&self) -> Vec<u32> {
        match self.form {
            MForm::Flat(_) | MForm::Nested(_) => self.list.clone(),
            MForm::RM(_) | MForm::CM(_) => self.grid.clone(),
            MForm::Gone => Vec::new(),
        }
    }

    pub fn drop_form(&mut self, f: u32, st: &mut Stats) {
        let ids = self.ids();
        let form = std::mem::replace(&mut self.form, MForm::Gone);
        if matches!(form, MForm::Gone) {
            return;
        }
        for id in &ids {
            tok::set_owner(*id, OWN_DOOMED);
        }
        if f > 0 {
            st.fault_cfg[F_DROP_PANIC] += 1;
        }
        let (r, fired) = guard(m(OWN_DOOMED), 0, if f > 0 { Some((Cb::Drop, f)) } else { None }, move || drop(form));
        if fired {
            st.fault_fired[F_DROP_PANIC] += 1;
            st.probes[P_DROP_PANIC_FIRED] += 1;
        }
        match r {
            Ok(()) => {}
            Err(Thrown::Injected) if fired => {}
            Err(Thrown::Injected) => tok::raise(V10_UNEXPECTED_PANIC, "drop of a matrix: stray injected panic (harness)".into()),
            Err(Thrown::Genuine(msg)) => tok::raise(V10_UNEXPECTED_PANIC, format!("drop of a matrix panicked: {}", msg)),
        }
        for id in ids {
            match if tok::gone(id) { Some(St::Dropped) } else { tok::state_of(id) } {
                Some(St::Dropped) => {}
                Some(St::Live) if fired => tok::set_state(id, St::MayLeak),
                Some(St::Live) => {
                    tok::raise(V7_LEAK, format!("drop of a matrix / array: id {} was not dropped", id));
                    return;
                }
                _ => {}
            }
        }
        self.list.clear();
        self.grid.clear();
    }

    pub fn forget_form(&mut self, st: &mut Stats) {
        let ids = self.ids();
        let form = std::mem::replace(&mut self.form, MForm::Gone);
        if matches!(form, MForm::Gone) {
            return;
        }
        st.fault_cfg[F_FORGET] += 1;
        st.fault_fired[F_FORGET] += 1;
        st.probes[P_FORGET] += 1;
        std::mem::forget(form);
        for id in ids {
            tok::set_state(id, St::Forgotten);
        }
        self.list.clear();
        self.grid.clear();
    }

    pub fn finish(&mut self, st: &mut Stats) {
        if !tok::has_violation() {
            self.drop_form(0, st);
        }
        if tok::has_violation() {
            std::mem::forget(std::mem::replace(&mut self.form, MForm::Gone));
        }
    }

    /// Take the public `rows` / `cols` field out of the matrix, with the model as groups.
    pub fn take_lines(&mut self) -> Option<(<F::LK as Kind<F::Line>>::V, Vec<Grp>)> {
        let n = F::N;
        let form = std::mem::replace(&mut self.form, MForm::Gone);
        let cm = match &form {
            MForm::RM(_) => false,
            MForm::CM(_) => true,
            _ => {
                self.form = form;
                return None;
            }
        };
        let mut model = Vec::with_capacity(n);
        for l in 0..n {
            let mut g = Grp { n: n as u8, ids: [0; 4] };
            for e in 0..n {
                g.ids[e] = if cm { self.grid[e * n + l] } else { self.grid[l * n + e] };
            }
            model.push(g);
        }
        self.grid.clear();
        let v = match form {
            MForm::RM(mm) => F::rm_lines(mm),
            MForm::CM(mm) => F::cm_lines(mm),
            _ => unreachable!(),
        };
        Some((v, model))
    }

    pub fn step(&mut self, op: Op, st: &mut Stats) -> bool {
        use OpK::*;
        let n = F::N;
        let by_cols = op.a & 1 == 1;
        match op.k {
            MFromFlat | MNew => {
                let f = match std::mem::replace(&mut self.form, MForm::Gone) {
                    MForm::Flat(f) => f,
                    o => {
                        self.form = o;
                        return false;
                    }
                };
                let isnew = op.k == MNew;
                let cm = self.home_cm;
                let what = if isnew { "Mat::new" } else if by_cols { "from_col_array" } else { "from_row_array" };
                let r = guard_nopanic(what, 0, 0, move || {
                    if cm {
                        MForm::<F, L>::CM(if isnew { F::cm_new(f) } else { F::cm_from_flat(f, by_cols) })
                    } else {
                        MForm::<F, L>::RM(if isnew { F::rm_new(f) } else { F::rm_from_flat(f, by_cols) })
                    }
                });
                if let Some(form) = r {
                    self.form = form;
                    self.grid_from_list(if isnew { false } else { by_cols });
                    self.entered = if isnew { 2 } else { by_cols as u8 };
                    self.check(what);
                }
                true
            }
            MFromNested => {
                let f = match std::mem::replace(&mut self.form, MForm::Gone) {
                    MForm::Nested(f) => f,
                    o => {
                        self.form = o;
                        return false;
                    }
                };
                let cm = self.home_cm;
                let what = if by_cols { "from_col_arrays" } else { "from_row_arrays" };
                let r = guard_nopanic(what, 0, 0, move || {
                    if cm {
                        MForm::<F, L>::CM(F::cm_from_nested(f, by_cols))
                    } else {
                        MForm::<F, L>::RM(F::rm_from_nested(f, by_cols))
                    }
                });
                if let Some(form) = r {
                    self.form = form;
                    self.grid_from_list(by_cols);
                    self.entered = by_cols as u8;
                    self.check(what);
                }
                true
            }
            MIntoFlat | MIntoNested => {
                let form = std::mem::replace(&mut self.form, MForm::Gone);
                if !matches!(form, MForm::RM(_) | MForm::CM(_)) {
                    self.form = form;
                    return false;
                }
                let nested = op.k == MIntoNested;
                let what = match (nested, by_cols) {
                    (false, false) => "into_row_array",
                    (false, true) => "into_col_array",
                    (true, false) => "into_row_arrays",
                    (true, true) => "into_col_arrays",
                };
                let r = guard_nopanic(what, 0, 0, move || match form {
                    MForm::RM(mm) => {
                        if nested {
                            MForm::<F, L>::Nested(F::rm_into_nested(mm, by_cols))
                        } else {
                            MForm::<F, L>::Flat(F::rm_into_flat(mm, by_cols))
                        }
                    }
                    MForm::CM(mm) => {
                        if nested {
                            MForm::<F, L>::Nested(F::cm_into_nested(mm, by_cols))
                        } else {
                            MForm::<F, L>::Flat(F::cm_into_flat(mm, by_cols))
                        }
                    }
                    _ => unreachable!(),
                });
                if let Some(form) = r {
                    self.form = form;
                    self.list_from_grid(by_cols);
                    if self.entered != 2 && self.entered != by_cols as u8 {
                        st.probes[P_MAT_CROSS] += 1;
                    }
                    self.check(what);
                }
                true
            }
            FlatToNested => {
                match std::mem::replace(&mut self.form, MForm::Gone) {
                    MForm::Flat(f) => self.form = MForm::Nested(F::nested_from_flat(f)),
                    o => {
                        self.form = o;
                        return false;
                    }
                }
                self.check("harness flat->nested");
                true
            }
            NestedToFlat => {
                match std::mem::replace(&mut self.form, MForm::Gone) {
                    MForm::Nested(f) => self.form = MForm::Flat(F::flat_from_nested(f)),
                    o => {
                        self.form = o;
                        return false;
                    }
                }
                self.check("harness nested->flat");
                true
            }
            MSwitchLayout => {
                let form = std::mem::replace(&mut self.form, MForm::Gone);
                if !matches!(form, MForm::RM(_) | MForm::CM(_)) {
                    self.form = form;
                    return false;
                }
                st.probes[P_MAT_SWITCH_LAYOUT] += 1;
                let r = guard_nopanic("From<other layout>", 0, 0, move || match form {
                    MForm::RM(mm) => MForm::<F, L>::CM(F::rm_to_cm(mm)),
                    MForm::CM(mm) => MForm::<F, L>::RM(F::cm_to_rm(mm)),
                    _ => unreachable!(),
                });
                if let Some(form) = r {
                    self.form = form;
                    self.check("From<other layout>");
                }
                true
            }
            MTranspose => {
                let inplace = op.a & 1 == 1;
                let form = std::mem::replace(&mut self.form, MForm::Gone);
                if !matches!(form, MForm::RM(_) | MForm::CM(_)) {
                    self.form = form;
                    return false;
                }
                let r = guard_nopanic("transpose", 0, 0, move || match form {
                    MForm::RM(mut mm) => MForm::<F, L>::RM(if inplace {
                        F::rm_transpose(&mut mm);
                        mm
                    } else {
                        F::rm_transposed(mm)
                    }),
                    MForm::CM(mut mm) => MForm::<F, L>::CM(if inplace {
                        F::cm_transpose(&mut mm);
                        mm
                    } else {
                        F::cm_transposed(mm)
                    }),
                    _ => unreachable!(),
                });
                if let Some(form) = r {
                    self.form = form;
                    let mut g = vec![0u32; n * n];
                    for i in 0..n {
                        for j in 0..n {
                            g[i * n + j] = self.grid[j * n + i];
                        }
                    }
                    self.grid = g;
                    self.check("transpose");
                }
                true
            }
            MSliceRead | MSliceSwap | MSliceReplace => {
                let cm = match &self.form {
                    MForm::RM(_) => false,
                    MForm::CM(_) => true,
                    _ => return false,
                };
                let nn = n * n;
                // entry k of as_row_slice is (k / n, k % n); of as_col_slice is (k % n, k / n)
                let pos = |k: usize| if cm { (k % n, k / n) } else { (k / n, k % n) };
                let fields: Vec<*const L> = (0..nn)
                    .map(|k| {
                        let (i, j) = pos(k);
                        self.field(i, j).unwrap() as *const L
                    })
                    .collect();
                let p = (op.b & 0xff) as usize % nn;
                let q = ((op.b >> 8) & 0xff) as usize % nn;
                let what = if cm { "as_(mut_)col_slice" } else { "as_(mut_)row_slice" };
                let kind = op.k;
                let grid = self.grid.clone();
                let mut newt = if kind == MSliceReplace {
                    st.probes[P_SLICE_REPLACE] += 1;
                    st.elements_created += 1;
                    let (i, j) = pos(p);
                    tok::set_owner(self.grid[i * n + j], OWN_DOOMED);
                    Some(L::mk(400 + p as u32, OWN_MAIN))
                } else {
                    None
                };
                let newid = newt.as_ref().map(|t| t.lid());
                let form = &mut self.form;
                let _ = guard_nopanic(what, m(OWN_DOOMED), 0, || {
                    let check_alias = |s: &[L]| -> bool {
                        if s.len() != nn {
                            tok::raise(V9_ALIAS, format!("{} has length {} on a {}x{} matrix", what, s.len(), n, n));
                            return false;
                        }
                        for k in 0..nn {
                            if s.as_ptr().wrapping_add(k) != fields[k] {
                                tok::raise(V9_ALIAS, format!("{}: entry {} does not alias the element its name and position say", what, k));
                                return false;
                            }
                        }
                        true
                    };
                    match kind {
                        MSliceRead => {
                            // the raw-pointer accessors must point at the first element of the view
                            let (p0, p1) = match form {
                                MForm::RM(mm) => F::rm_ptrs(mm),
                                MForm::CM(mm) => F::cm_ptrs(mm),
                                _ => unreachable!(),
                            };
                            if p0 != fields[0] || p1 != fields[0] {
                                tok::raise(V9_ALIAS, format!("as_(mut_){}_ptr does not point at the first element", if cm { "col" } else { "row" }));
                                return;
                            }
                            let s = match form {
                                MForm::RM(mm) => F::rm_slice(mm),
                                MForm::CM(mm) => F::cm_slice(mm),
                                _ => unreachable!(),
                            };
                            if !check_alias(s) {
                                return;
                            }
                            for k in 0..nn {
                                let (i, j) = pos(k);
                                if Self::read(&s[k]) != grid[i * n + j] {
                                    tok::raise(V5_ORDER, format!("{}: entry {} is not element (row {}, column {})", what, k, i, j));
                                    return;
                                }
                            }
                        }
                        _ => {
                            let s = match form {
                                MForm::RM(mm) => F::rm_slice_mut(mm),
                                MForm::CM(mm) => F::cm_slice_mut(mm),
                                _ => unreachable!(),
                            };
                            if !check_alias(s) {
                                return;
                            }
                            if let Some(t) = newt.take() {
                                s[p] = t;
                            } else {
                                s.swap(p, q);
                            }
                        }
                    }
                });
                if let Some(t) = newt.take() {
                    std::mem::forget(t);
                    return true;
                }
                match kind {
                    MSliceSwap => {
                        let (i1, j1) = pos(p);
                        let (i2, j2) = pos(q);
                        self.grid.swap(i1 * n + j1, i2 * n + j2);
                    }
                    MSliceReplace => {
                        let (i, j) = pos(p);
                        let old = self.grid[i * n + j];
                        self.grid[i * n + j] = newid.unwrap();
                        if !tok::gone(old) && !tok::has_violation() {
                            tok::raise(V7_LEAK, format!("replacement through {}: old element id {} was not dropped", what, old));
                        }
                    }
                    _ => {}
                }
                if !tok::has_violation() {
                    self.check(what);
                }
                true
            }
            MIndex => {
                if !matches!(self.form, MForm::RM(_) | MForm::CM(_)) {
                    return false;
                }
                let i = (op.b & 0xff) as usize % n;
                let j = ((op.b >> 8) & 0xff) as usize % n;
                let fieldp = self.field(i, j).unwrap() as *const L;
                let replace = op.a & 1 == 1;
                let mut newt = if replace {
                    st.elements_created += 1;
                    tok::set_owner(self.grid[i * n + j], OWN_DOOMED);
                    Some(L::mk(500, OWN_MAIN))
                } else {
                    None
                };
                let newid = newt.as_ref().map(|t| t.lid());
                let form = &mut self.form;
                let _ = guard_nopanic("m[(i, j)]", m(OWN_DOOMED), 0, || {
                    let p: *const L = match form {
                        MForm::RM(mm) => F::rm_index(mm, i, j),
                        MForm::CM(mm) => F::cm_index(mm, i, j),
                        _ => unreachable!(),
                    };
                    if p != fieldp {
                        tok::raise(V9_ALIAS, format!("m[({}, {})] does not refer to the element at row {}, column {}", i, j, i, j));
                        return;
                    }
                    if let Some(t) = newt.take() {
                        match form {
                            MForm::RM(mm) => *F::rm_index_mut(mm, i, j) = t,
                            MForm::CM(mm) => *F::cm_index_mut(mm, i, j) = t,
                            _ => unreachable!(),
                        }
                    }
                });
                if let Some(t) = newt.take() {
                    std::mem::forget(t);
                    return true;
                }
                if replace {
                    let old = self.grid[i * n + j];
                    self.grid[i * n + j] = newid.unwrap();
                    if !tok::gone(old) && !tok::has_violation() {
                        tok::raise(V7_LEAK, format!("replacement through IndexMut: old element id {} was not dropped", old));
                    }
                }
                if !tok::has_violation() {
                    self.check("m[(i, j)]");
                }
                true
            }
            MObserve => {
                if !matches!(self.form, MForm::RM(_) | MForm::CM(_)) {
                    return false;
                }
                st.probes[P_MAT_OBSERVE] += 1;
                if op.f > 0 {
                    st.fault_cfg[F_OBSERVE_PANIC] += 1;
                }
                let form = &self.form;
                let kind = op.a;
                if op.b > 0 && (kind % 4 == 0 || kind % 4 == 3) {
                    st.fault_cfg[F_SINK] += 1;
                    set_sink_fail(op.b);
                }
                if op.b > 0 && kind % 4 == 1 {
                    st.fault_cfg[F_HASHER] += 1;
                    tok::set_hash_fail(op.b);
                }
                let (r, fired) = guard(0, m(OWN_MAIN), if op.f > 0 { Some((Cb::Observe, op.f)) } else { None }, || match form {
                    MForm::RM(mm) => F::rm_observe(mm, kind),
                    MForm::CM(mm) => F::cm_observe(mm, kind),
                    _ => unreachable!(),
                });
                if fired {
                    st.fault_fired[F_OBSERVE_PANIC] += 1;
                    st.probes[P_OBS_PANIC_FIRED] += 1;
                }
                if take_sink_fired() {
                    st.fault_fired[F_SINK] += 1;
                }
                let hfired = tok::take_hash_fired();
                if hfired {
                    st.fault_fired[F_HASHER] += 1;
                }
                match r {
                    Ok(()) => {}
                    Err(Thrown::Injected) if fired || hfired => {}
                    Err(Thrown::Injected) => tok::raise(V10_UNEXPECTED_PANIC, "observe on a matrix: stray injected panic (harness)".into()),
                    Err(Thrown::Genuine(msg)) => tok::raise(V10_UNEXPECTED_PANIC, format!("observe on a matrix panicked: {}", msg)),
                }
                if !tok::has_violation() {
                    self.check("observe");
                }
                true
            }
            MArith => {
                let mode = op.a % 5;
                if mode != 2 && !matches!(self.form, MForm::RM(_) | MForm::CM(_)) {
                    return false;
                }
                st.probes[P_ARITH] += 1;
                let keep_last = (op.b >> 8) & 1 == 1;
                match mode {
                    0 | 1 => {
                        // m + w / -m: every element is handed to the element's own operator exactly once, in place
                        let what = if mode == 0 { ["m + w", "m - w", "m / w", "m % w"][((op.b >> 16) % 4) as usize] } else { "-m" };
                        let form = std::mem::replace(&mut self.form, MForm::Gone);
                        let col = matches!(form, MForm::CM(_));
                        let mut other_ids: Vec<u32> = Vec::new();
                        let other: Option<MForm<F, L>> = if mode == 0 {
                            let toks: Vec<L> = (0..(n * n) as u32).map(|p| L::mk(700 + p, OWN_DOOMED)).collect();
                            st.elements_created += (n * n) as u64;
                            other_ids = toks.iter().map(|t| t.lid()).collect();
                            Some(if col { MForm::CM(F::cm_new(F::flat_from_vec(toks))) } else { MForm::RM(F::rm_new(F::flat_from_vec(toks))) })
                        } else {
                            None
                        };
                        if op.f > 0 {
                            st.fault_cfg[F_ARITH_PANIC] += 1;
                        }
                        let mine: Vec<u32> = self.grid.clone();
                        if keep_last && mode == 0 {
                            for id in &mine {
                                tok::set_owner(*id, OWN_DOOMED);
                            }
                            for id in &other_ids {
                                tok::set_owner(*id, OWN_MAIN);
                            }
                        }
                        crate::arith::arm(op.f, keep_last);
                        let (r, _) = guard(m(OWN_DOOMED) | if op.f > 0 { m(OWN_MAIN) } else { 0 }, 0, None, move || match (form, other) {
                            (MForm::RM(mm), Some(MForm::RM(oo))) => MForm::<F, L>::RM(F::rm_add(mm, oo, op.b >> 16)),
                            (MForm::CM(mm), Some(MForm::CM(oo))) => MForm::<F, L>::CM(F::cm_add(mm, oo, op.b >> 16)),
                            (MForm::RM(mm), _) => MForm::<F, L>::RM(F::rm_neg(mm)),
                            (MForm::CM(mm), _) => MForm::<F, L>::CM(F::cm_neg(mm)),
                            _ => unreachable!(),
                        });
                        let (_calls, fired, log) = crate::arith::take();
                        if fired {
                            st.fault_fired[F_ARITH_PANIC] += 1;
                            st.probes[P_ARITH_PANIC_FIRED] += 1;
                        }
                        if tok::has_violation() {
                            if let Ok(f) = r {
                                std::mem::forget(f);
                            }
                            self.grid.clear();
                            return true;
                        }
                        // the calls: each pairs position p of m with position p of w (storage order is the
                        // implementation's business), every position exactly once
                        let mut seen: Vec<u32> = Vec::new();
                        for (ci, c) in log.iter().enumerate() {
                            let a = c.args[0];
                            let pos = mine.iter().position(|x| *x == a);
                            let okb = if mode == 0 { pos.map(|p| other_ids[p]) == Some(c.args[1]) } else { c.args[1] == crate::arith::NONE };
                            if pos.is_none() || !okb || seen.contains(&a) {
                                tok::raise(V5_ORDER, format!("{} on a {}x{} matrix: call {} of the element's operator was handed ids ({}, {}): not one position of m with the same position of w, or a position handed in twice", what, n, n, ci + 1, c.args[0] as i64, c.args[1] as i64));
                                if let Ok(f) = r {
                                    std::mem::forget(f);
                                }
                                self.grid.clear();
                                return true;
                            }
                            seen.push(a);
                        }
                        match r {
                            Ok(form) => {
                                if log.len() != n * n {
                                    tok::raise(V5_ORDER, format!("{}: the element's operator was called {} times for {} positions", what, log.len(), n * n));
                                }
                                self.form = form;
                                if keep_last && mode == 0 {
                                    self.grid = other_ids.clone();
                                    self.list.clear();
                                }
                                let survivors = self.grid.clone();
                                self.check(what);
                                for id in mine.iter().chain(other_ids.iter()) {
                                    if !survivors.contains(id) && !tok::gone(*id) && !tok::has_violation() {
                                        tok::raise(V7_LEAK, format!("{}: operand element id {} was neither kept nor destroyed", what, id));
                                    }
                                }
                            }
                            Err(Thrown::Injected) if fired => {
                                self.grid.clear();
                                for id in mine.iter().chain(other_ids.iter()) {
                                    if !tok::gone(*id) && !tok::has_violation() {
                                        tok::raise(V7_LEAK, format!("{} unwound: id {} was not dropped", what, id));
                                    }
                                }
                            }
                            Err(Thrown::Injected) => {
                                self.grid.clear();
                            }
                            Err(Thrown::Genuine(msg)) => {
                                self.grid.clear();
                                tok::raise(V10_UNEXPECTED_PANIC, format!("{} panicked: {}", what, msg))
                            }
                        }
                        true
                    }
                    2 => {
                        // M::default() (the identity): n*n zeros, the diagonal replaced by ones; dropped at once
                        let col = op.b & 1 == 1;
                        if op.f > 0 {
                            st.fault_cfg[F_DEFAULT_PANIC] += 1;
                        }
                        let (r, fired) = guard(m(OWN_FRESH), 0, plan_of_default(op.f), move || if col { MForm::<F, L>::CM(F::cm_default()) } else { MForm::<F, L>::RM(F::rm_default()) });
                        let fresh = tok::fresh_in_op();
                        if fired {
                            st.fault_fired[F_DEFAULT_PANIC] += 1;
                            st.probes[P_DEFAULT_PANIC_FIRED] += 1;
                        }
                        match r {
                            Ok(f) => {
                                let ids: Vec<u32> = match &f {
                                    MForm::RM(mm) => ids_rm::<F, L>(mm),
                                    MForm::CM(mm) => ids_cm::<F, L>(mm),
                                    _ => Vec::new(),
                                };
                                let mut sorted = ids.clone();
                                sorted.sort();
                                sorted.dedup();
                                if sorted.len() != n * n || ids.iter().any(|id| !fresh.contains(id) || tok::state_of(*id) != Some(St::Live)) {
                                    tok::raise(V5_ORDER, format!("Mat{}::default(): the result does not consist of {} distinct live elements created by zero()/one()", n, n * n));
                                    std::mem::forget(f);
                                    return true;
                                }
                                let _ = guard_nopanic("drop of the identity matrix", m(OWN_FRESH), 0, move || drop(f));
                            }
                            Err(Thrown::Injected) if fired => {}
                            Err(Thrown::Injected) => {}
                            Err(Thrown::Genuine(msg)) => tok::raise(V10_UNEXPECTED_PANIC, format!("Mat{}::default() panicked: {}", n, msg)),
                        }
                        for id in &fresh {
                            if !tok::gone(*id) && !tok::has_violation() {
                                tok::raise(V7_LEAK, format!("Mat{}::default(): element id {} created by zero()/one() was never destroyed", n, id));
                            }
                        }
                        true
                    }
                    _ => {
                        // through another matrix size and back: the top-left block common to both sizes keeps
                        // its elements in place, everything else of m is destroyed once, padding is fresh
                        let which = (mode - 3) as usize;
                        let via = F::VIA[which];
                        let kb = n.min(via);
                        let what = format!("Mat{}::from(Mat{}::from(m))", n, via);
                        let mine: Vec<u32> = self.grid.clone();
                        for i in 0..n {
                            for j in 0..n {
                                if i >= kb || j >= kb {
                                    tok::set_owner(mine[i * n + j], OWN_DOOMED);
                                }
                            }
                        }
                        if op.f > 0 {
                            st.fault_cfg[F_DEFAULT_PANIC] += 1;
                        }
                        let form = std::mem::replace(&mut self.form, MForm::Gone);
                        let (r, fired) = guard(m(OWN_DOOMED) | m(OWN_FRESH) | if op.f > 0 { m(OWN_MAIN) } else { 0 }, 0, plan_of_default(op.f), move || match form {
                            MForm::RM(mm) => MForm::<F, L>::RM(F::rm_via(mm, which)),
                            MForm::CM(mm) => MForm::<F, L>::CM(F::cm_via(mm, which)),
                            _ => unreachable!(),
                        });
                        let fresh = tok::fresh_in_op();
                        if fired {
                            st.fault_fired[F_DEFAULT_PANIC] += 1;
                            st.probes[P_DEFAULT_PANIC_FIRED] += 1;
                        }
                        if tok::has_violation() {
                            if let Ok(f) = r {
                                std::mem::forget(f);
                            }
                            self.grid.clear();
                            return true;
                        }
                        match r {
                            Ok(f) => {
                                let ids: Vec<u32> = match &f {
                                    MForm::RM(mm) => ids_rm::<F, L>(mm),
                                    MForm::CM(mm) => ids_cm::<F, L>(mm),
                                    _ => Vec::new(),
                                };
                                for i in 0..n {
                                    for j in 0..n {
                                        let id = ids[i * n + j];
                                        let ok = if i < kb && j < kb { id == mine[i * n + j] } else { fresh.contains(&id) && tok::state_of(id) == Some(St::Live) && !mine.contains(&id) };
                                        if !ok {
                                            tok::raise(V5_ORDER, format!("{}: position ({}, {}) holds id {}; expected {}", what, i, j, id, if i < kb && j < kb { format!("id {} (kept in place)", mine[i * n + j]) } else { "a fresh zero()/one() element".to_string() }));
                                            std::mem::forget(f);
                                            self.grid.clear();
                                            return true;
                                        }
                                    }
                                }
                                let mut sorted = ids.clone();
                                sorted.sort();
                                sorted.dedup();
                                if sorted.len() != n * n {
                                    tok::raise(V1_DOUBLE_DROP, format!("{}: the same element appears at two positions of the result", what));
                                    std::mem::forget(f);
                                    self.grid.clear();
                                    return true;
                                }
                                for id in mine.iter().chain(fresh.iter()) {
                                    if !ids.contains(id) && !tok::gone(*id) {
                                        tok::raise(V7_LEAK, format!("{}: element id {} is not part of the result and was not destroyed", what, id));
                                        std::mem::forget(f);
                                        self.grid.clear();
                                        return true;
                                    }
                                }
                                for id in &ids {
                                    tok::set_owner(*id, OWN_MAIN);
                                }
                                self.grid = ids;
                                self.list.clear();
                                self.form = f;
                            }
                            Err(Thrown::Injected) if fired => {
                                self.grid.clear();
                                for id in mine.iter().chain(fresh.iter()) {
                                    if !tok::gone(*id) && !tok::has_violation() {
                                        tok::raise(V7_LEAK, format!("{} unwound (zero()/one() panicked): id {} was not dropped", what, id));
                                    }
                                }
                            }
                            Err(Thrown::Injected) => {
                                self.grid.clear();
                            }
                            Err(Thrown::Genuine(msg)) => {
                                self.grid.clear();
                                tok::raise(V10_UNEXPECTED_PANIC, format!("{} panicked: {}", what, msg))
                            }
                        }
                        true
                    }
                }
            }
            MDiagonal => {
                if !matches!(self.form, MForm::RM(_) | MForm::CM(_)) {
                    return false;
                }
                st.probes[P_MAT_SHRINK] += 1;
                let mut keep: Vec<u32> = Vec::with_capacity(n);
                let mut cut: Vec<u32> = Vec::new();
                for i in 0..n {
                    for j in 0..n {
                        let id = self.grid[i * n + j];
                        if i == j {
                            keep.push(id);
                        } else {
                            tok::set_owner(id, OWN_DOOMED);
                            cut.push(id);
                        }
                    }
                }
                let form = std::mem::replace(&mut self.form, MForm::Gone);
                self.grid.clear();
                let r = guard_nopanic("diagonal()", m(OWN_DOOMED), 0, move || match form {
                    MForm::RM(mm) => F::rm_diagonal(mm),
                    MForm::CM(mm) => F::cm_diagonal(mm),
                    _ => unreachable!(),
                });
                if let Some(line) = r {
                    let g = line.grp();
                    let got: Vec<u32> = g.iter().collect();
                    if got != keep {
                        tok::raise(V5_ORDER, format!("diagonal(): the result holds ids {:?}, the diagonal is {:?}", got, keep));
                        std::mem::forget(line);
                        return true;
                    }
                    for id in &cut {
                        if !tok::gone(*id) {
                            tok::raise(V7_LEAK, format!("diagonal(): id {} lies off the diagonal and was not destroyed", id));
                            std::mem::forget(line);
                            return true;
                        }
                    }
                    for id in &keep {
                        tok::set_owner(*id, OWN_DOOMED);
                    }
                    let _ = guard_nopanic("drop of the diagonal vector", m(OWN_DOOMED), 0, move || drop(line));
                    for id in &keep {
                        if !tok::gone(*id) {
                            tok::raise(V7_LEAK, format!("drop of the vector diagonal() returned: id {} was not dropped", id));
                            return true;
                        }
                    }
                }
                true
            }
            MShrink => {
                if F::SHRINKS == 0 || !matches!(self.form, MForm::RM(_) | MForm::CM(_)) {
                    return false;
                }
                st.probes[P_MAT_SHRINK] += 1;
                let which = op.a as usize % F::SHRINKS;
                let k = n - 1 - which;
                // everything outside the top-left k x k block is cut off and must be destroyed by the conversion
                let mut keep: Vec<u32> = Vec::with_capacity(k * k);
                let mut cut: Vec<u32> = Vec::new();
                for i in 0..n {
                    for j in 0..n {
                        let id = self.grid[i * n + j];
                        if i < k && j < k {
                            keep.push(id);
                        } else {
                            tok::set_owner(id, OWN_DOOMED);
                            cut.push(id);
                        }
                    }
                }
                let form = std::mem::replace(&mut self.form, MForm::Gone);
                self.grid.clear();
                let what = if n == 4 && k == 3 { "Mat3::from(Mat4)" } else if n == 4 { "Mat2::from(Mat4)" } else { "Mat2::from(Mat3)" };
                let r = guard_nopanic(what, m(OWN_DOOMED), 0, move || match form {
                    MForm::RM(mm) => F::rm_shrink(mm, which),
                    MForm::CM(mm) => F::cm_shrink(mm, which),
                    _ => unreachable!(),
                });
                if let Some((small, k2, ids)) = r {
                    if k2 != k || ids != keep {
                        tok::raise(V5_ORDER, format!("{}: the result holds ids {:?}, the top-left {}x{} block of the source is {:?}", what, ids, k, k, keep));
                        std::mem::forget(small);
                        return true;
                    }
                    for id in &cut {
                        if !tok::gone(*id) {
                            tok::raise(V7_LEAK, format!("{}: id {} lies outside the top-left block and was not destroyed", what, id));
                            std::mem::forget(small);
                            return true;
                        }
                    }
                    for id in &keep {
                        tok::set_owner(*id, OWN_DOOMED);
                    }
                    let _ = guard_nopanic("drop of the truncated matrix", m(OWN_DOOMED), 0, move || drop(small));
                    for id in &keep {
                        if !tok::gone(*id) {
                            tok::raise(V7_LEAK, format!("drop of the matrix {} returned: id {} was not dropped", what, id));
                            return true;
                        }
                    }
                }
                true
            }
            MClone => {
                if !matches!(self.form, MForm::RM(_) | MForm::CM(_)) {
                    return false;
                }
                st.probes[P_CONTAINER_CLONE] += 1;
                if op.f > 0 {
                    st.fault_cfg[F_OBSERVE_PANIC] += 1;
                }
                if op.a % 2 == 1 {
                    // w.clone_from(&m): w's old elements destroyed exactly once, w ends up holding one fresh
                    // clone per element, in place; under a clone-panic w stays a valid container, nothing leaks
                    st.probes[P_CLONE_FROM] += 1;
                    let olds: Vec<L> = (0..(n * n) as u32).map(|p| L::mk(900 + p, OWN_DOOMED)).collect();
                    st.elements_created += (n * n) as u64;
                    let old_ids: Vec<u32> = olds.iter().map(|t| t.lid()).collect();
                    let mut w: MForm<F, L> = match &self.form {
                        MForm::RM(_) => MForm::RM(F::rm_new(F::flat_from_vec(olds))),
                        _ => MForm::CM(F::cm_new(F::flat_from_vec(olds))),
                    };
                    let src = &self.form;
                    let (r, fired) = {
                        let w = &mut w;
                        guard(m(OWN_DOOMED) | m(OWN_FRESH), m(OWN_MAIN), if op.f > 0 { Some((Cb::Observe, op.f)) } else { None }, move || match (w, src) {
                            (MForm::RM(d), MForm::RM(s)) => F::rm_clone_from(d, s),
                            (MForm::CM(d), MForm::CM(s)) => F::cm_clone_from(d, s),
                            _ => unreachable!(),
                        })
                    };
                    let fresh = tok::fresh_in_op();
                    match r {
                        Ok(()) => {
                            let mut ok = true;
                            for i in 0..n {
                                for j in 0..n {
                                    let t = match &w {
                                        MForm::RM(mm) => F::rm_field(mm, i, j),
                                        MForm::CM(mm) => F::cm_field(mm, i, j),
                                        _ => unreachable!(),
                                    };
                                    let tid = t.grp().first();
                                    if !fresh.contains(&tid) || tok::origin_of(tid) != Some(Origin::Clone) || tok::val_of(tid) != tok::val_of(self.grid[i * n + j]) {
                                        ok = false;
                                    }
                                }
                            }
                            if !ok {
                                tok::raise(V5_ORDER, format!("clone_from on a {0}x{0} matrix: the destination does not consist of one fresh clone per element of the source, in place", n));
                                std::mem::forget(w);
                                return true;
                            }
                            for id in &old_ids {
                                if !tok::gone(*id) {
                                    tok::raise(V7_LEAK, format!("clone_from on a matrix: the destination's old element id {} was not destroyed", id));
                                    std::mem::forget(w);
                                    return true;
                                }
                            }
                        }
                        Err(Thrown::Injected) if fired => {
                            st.fault_fired[F_OBSERVE_PANIC] += 1;
                            st.probes[P_CLONE_PANIC_FIRED] += 1;
                        }
                        Err(Thrown::Injected) => tok::raise(V10_UNEXPECTED_PANIC, "clone_from on a matrix: stray injected panic (harness)".into()),
                        Err(Thrown::Genuine(msg)) => tok::raise(V10_UNEXPECTED_PANIC, format!("clone_from on a matrix panicked: {}", msg)),
                    }
                    if tok::has_violation() {
                        std::mem::forget(w);
                        return true;
                    }
                    for id in &fresh {
                        if !tok::gone(*id) {
                            tok::set_owner(*id, OWN_CLONE);
                        }
                    }
                    let _ = guard_nopanic("drop of the clone_from destination", m(OWN_CLONE) | m(OWN_DOOMED), 0, move || drop(w));
                    for id in fresh.iter().chain(old_ids.iter()) {
                        if !tok::gone(*id) {
                            tok::raise(V7_LEAK, format!("clone_from on a matrix: element id {} was never destroyed", id));
                            return true;
                        }
                    }
                    if !tok::has_violation() {
                        self.check("clone_from");
                    }
                    return true;
                }
                let form = &self.form;
                let (r, fired) = guard(m(OWN_FRESH), m(OWN_MAIN), if op.f > 0 { Some((Cb::Observe, op.f)) } else { None }, || match form {
                    MForm::RM(mm) => MForm::<F, L>::RM(F::rm_clone(mm)),
                    MForm::CM(mm) => MForm::<F, L>::CM(F::cm_clone(mm)),
                    _ => unreachable!(),
                });
                let fresh = tok::fresh_in_op();
                match r {
                    Ok(c) => {
                        let mut ok = fresh.len() == n * n;
                        for i in 0..n {
                            for j in 0..n {
                                let t = match &c {
                                    MForm::RM(mm) => F::rm_field(mm, i, j),
                                    MForm::CM(mm) => F::cm_field(mm, i, j),
                                    _ => unreachable!(),
                                };
                                let tid = t.grp().first();
                                if !fresh.contains(&tid) || tok::origin_of(tid) != Some(Origin::Clone) || tok::val_of(tid) != tok::val_of(self.grid[i * n + j]) {
                                    ok = false;
                                }
                            }
                        }
                        if !ok {
                            tok::raise(V5_ORDER, format!("clone of a {0}x{0} matrix: the copy does not consist of one fresh clone per element, in place", n));
                            std::mem::forget(c);
                            return true;
                        }
                        for id in &fresh {
                            tok::set_owner(*id, OWN_CLONE);
                        }
                        let _ = guard_nopanic("drop of the cloned matrix", m(OWN_CLONE), 0, move || drop(c));
                        for id in &fresh {
                            if !tok::gone(*id) {
                                tok::raise(V7_LEAK, format!("drop of a cloned matrix: id {} was not dropped", id));
                                return true;
                            }
                        }
                    }
                    Err(Thrown::Injected) if fired => {
                        st.fault_fired[F_OBSERVE_PANIC] += 1;
                        st.probes[P_CLONE_PANIC_FIRED] += 1;
                        for id in &fresh {
                            if !tok::gone(*id) {
                                tok::raise(V7_LEAK, format!("clone of a matrix unwound: fresh element id {} leaked", id));
                                return true;
                            }
                        }
                    }
                    Err(Thrown::Injected) => tok::raise(V10_UNEXPECTED_PANIC, "clone of a matrix: stray injected panic (harness)".into()),
                    Err(Thrown::Genuine(msg)) => tok::raise(V10_UNEXPECTED_PANIC, format!("clone of a matrix panicked: {}", msg)),
                }
                if !tok::has_violation() {
                    self.check("clone");
                }
                true
            }
            MMapRows => {
                let form = std::mem::replace(&mut self.form, MForm::Gone);
                if !matches!(form, MForm::RM(_) | MForm::CM(_)) {
                    self.form = form;
                    return false;
                }
                st.probes[P_MAT_MAP_LINES] += 1;
                let per_elem = op.a % 3 == 1;
                let two = op.a % 3 == 2;
                let what = if per_elem { "Mat::map" } else if two { "Mat::map2" } else { "map_rows / map_cols" };
                if op.f > 0 {
                    st.fault_cfg[F_CLOSURE_PANIC] += 1;
                }
                // map2: a second matrix of fresh elements, which the closure destroys
                let mut other_ids: Vec<u32> = Vec::new();
                let other: Option<MForm<F, L>> = if two {
                    let toks: Vec<L> = (0..(n * n) as u32).map(|p| L::mk(700 + p, OWN_DOOMED)).collect();
                    st.elements_created += (n * n) as u64;
                    other_ids = toks.iter().map(|t| t.lid()).collect();
                    Some(match &form {
                        MForm::RM(_) => MForm::RM(F::rm_new(F::flat_from_vec(toks))),
                        _ => MForm::CM(F::cm_new(F::flat_from_vec(toks))),
                    })
                } else {
                    None
                };
                let mut w = Watch::new(op.f);
                let (r, _) = {
                    let w = &mut w;
                    guard(m(OWN_DOOMED) | if op.f > 0 { m(OWN_MAIN) } else { 0 }, 0, None, move || match (form, other) {
                        (MForm::RM(mm), Some(MForm::RM(oo))) => MForm::<F, L>::RM(F::rm_map2(mm, oo, |t, u| {
                            w.hit(Grp::one(t.lid()));
                            drop(u);
                            t
                        })),
                        (MForm::CM(mm), Some(MForm::CM(oo))) => MForm::<F, L>::CM(F::cm_map2(mm, oo, |t, u| {
                            w.hit(Grp::one(t.lid()));
                            drop(u);
                            t
                        })),
                        (MForm::RM(mm), _) => MForm::<F, L>::RM(if per_elem {
                            F::rm_map(mm, |t| {
                                w.hit(Grp::one(t.lid()));
                                t
                            })
                        } else {
                            F::rm_map_lines(mm, |l| {
                                w.hit(l.grp());
                                l
                            })
                        }),
                        (MForm::CM(mm), _) => MForm::<F, L>::CM(if per_elem {
                            F::cm_map(mm, |t| {
                                w.hit(Grp::one(t.lid()));
                                t
                            })
                        } else {
                            F::cm_map_lines(mm, |l| {
                                w.hit(l.grp());
                                l
                            })
                        }),
                        _ => unreachable!(),
                    })
                };
                for id in &other_ids {
                    if !tok::gone(*id) && !tok::has_violation() {
                        tok::raise(V7_LEAK, format!("{}: element id {} of the second operand was not destroyed", what, id));
                    }
                }
                match r {
                    Ok(form) => {
                        self.form = form;
                        // every element went through the closure exactly once
                        let mut seen: Vec<u32> = w.order.iter().flat_map(|g| g.iter().collect::<Vec<u32>>()).collect();
                        seen.sort();
                        let mut want = self.grid.clone();
                        want.sort();
                        if seen != want {
                            tok::raise(V5_ORDER, format!("{}: the closure was not handed every element exactly once", what));
                            return true;
                        }
                        self.check(what);
                    }
                    Err(Thrown::Injected) if w.fired => {
                        st.fault_fired[F_CLOSURE_PANIC] += 1;
                        st.probes[P_CLOSURE_PANIC_FIRED] += 1;
                        // R-unwind, closure panic: everything is destroyed exactly once on the way out
                        for id in self.grid.drain(..) {
                            if !tok::gone(id) {
                                tok::raise(V7_LEAK, format!("{} unwound: id {} was not dropped", what, id));
                                break;
                            }
                        }
                    }
                    Err(Thrown::Injected) => {}
                    Err(Thrown::Genuine(msg)) => tok::raise(V10_UNEXPECTED_PANIC, format!("{} panicked: {}", what, msg)),
                }
                true
            }
            Drop => {
                if matches!(self.form, MForm::Gone) {
                    return false;
                }
                self.drop_form(op.f, st);
                true
            }
            Forget => {
                if matches!(self.form, MForm::Gone) {
                    return false;
                }
                self.forget_form(st);
                true
            }
            _ => false,
        }
    }
}
