//! The operation alphabet. A run is a flat list of `Op`s interpreted against a small state
//! machine (which *form* the elements are currently held in). An operation whose precondition
//! does not hold in the current form is skipped, and all index-like arguments are reduced
//! modulo the current size, so every sub-list of a history is again a history (needed for
//! minimisation) and the same list can be replayed on a smaller container of the same family.

macro_rules! opkinds {
    ($($name:ident = $v:expr, $txt:expr;)+) => {
        #[derive(Clone, Copy, PartialEq, Eq, Debug, Hash, PartialOrd, Ord)]
        #[repr(u8)]
        pub enum OpK { $($name = $v,)+ }
        impl OpK {
            pub const ALL: &'static [OpK] = &[$(OpK::$name,)+];
            pub fn name(self) -> &'static str { match self { $(OpK::$name => $txt,)+ } }
            pub fn from_name(s: &str) -> Option<OpK> { match s { $($txt => Some(OpK::$name),)+ _ => None } }
        }
    };
}

opkinds! {
    // ---- form changes on a vector-shaped value ----
    ArrToV = 0, "ArrToV";             // V::from([X; N])
    VNew = 1, "VNew";                 // V::new(x0, x1, ..)
    TupToV = 2, "TupToV";             // V::from(tuple)
    VToArr = 3, "VToArr";             // v.into_array()
    VToTup = 4, "VToTup";             // v.into_tuple()
    ArrToTup = 5, "ArrToTup";         // harness only
    TupToArr = 6, "TupToArr";         // harness only
    FromIterStub = 7, "FromIterStub"; // Arr -> V::from_iter(stub source); a = source mode (0 exact, 1 early EOF, 2 surplus, 3 panics, 4 not fused: one None then more, 5 size_hint() panics, 6 the source's Drop panics), b = j | hint<<8, f = default-panic k
    VDefault = 8, "VDefault";         // * -> V::default(); f = default-panic k
    VIntoIter = 9, "VIntoIter";       // a = 0 v.into_iter() (method syntax) | 1 IntoIterator::into_iter(v) (what a for loop does)
    // ---- on a vector value ----
    SliceRead = 10, "SliceRead";       // a = route
    SliceSwap = 11, "SliceSwap";       // a = route, b = i | j<<8
    SliceReplace = 12, "SliceReplace"; // a = route, b = i
    VObserve = 13, "VObserve";         // a = Debug|Hash|Eq|Display, f = observe-panic k
    VMap = 14, "VMap";                 // a = 0 map(f) | 1 zip(w).map(f) | 2 map2(w, f) | 3 map3(w, u, f), identity-like f; f = closure-panic k
    VReduce = 17, "VReduce";           // v.reduce(f): a = 0 the closure keeps the accumulator | 1 keeps the new element; f = closure-panic k; terminal
    VKindConv = 18, "VKindConv";       // a = which composed kind / size conversion (adapters::KcSpec), ending in the same type
    VArith = 48, "VArith";             // arithmetic with elements that are not Copy: a % 21 = 0 v + w (b bits 16.. = which of + - * / % & | ^ << >>) | 1 v + [array] | 2 v * (tuple) | 3 v + &w | 4 v += w | 5 -v | 6 v.mul_add(w, u) | 7 Sum over a source of 1 + b%3 vectors | 8 Product likewise | 9 v.sum() | 10 v.product() | 11 &v + w | 12 &v + &w | 13..16 v.reduce_min/max/partial_min/partial_max() | 17..20 V::min/max/partial_min/partial_max(v, w) (11..20: leaf element shapes only; 13..20: f < 1000 a comparison unwinds, f >= 1000 the destructor of a loser unwinds); b bit 8 = the element's operators return their last operand instead of self; b bits 9.. = source panics at that next(); f = the element's operator impl unwinds at its f-th call (7, 8: f >= 1000: zero()/one() unwinds at call f - 1000)
    VClone = 16, "VClone";             // a = 0: let c = v.clone(); drop(c) | 1: w.clone_from(&v); drop(w)  (derive(Clone) on the container; f = panic in the f-th element clone)
    VFromSlice = 15, "VFromSlice";     // V::<u32>::from_slice(&s[..a]) (Copy elements: order and default fill only)
    // ---- on the consuming iterator ----
    Next = 20, "Next";                 // b = 1 keep in bag, 0 drop at once
    NextBack = 21, "NextBack";
    Nth = 22, "Nth";                   // a = k
    NthBack = 23, "NthBack";
    Len = 24, "Len";
    SizeHint = 25, "SizeHint";
    Observe = 26, "Observe";           // a = 0 Debug, 1 Hash, 2 Eq(self), 3 Eq(twin), 4 Ne(twin), 5 Debug alternate ({:#?}), 6 Debug with width/fill/alignment/sign/precision flags; f = observe-panic k, b = sink failure (a = 0, 5) / hasher panic (a = 1) at write b
    TakeCount = 27, "TakeCount";       // it.by_ref().take(a).count(); f = drop-panic k
    RevTakeDrop = 28, "RevTakeDrop";   // it.by_ref().rev().take(a).for_each(drop); f = drop-panic k
    BagDrop = 29, "BagDrop";           // caller destroys a previously yielded element
    TwinMake = 30, "TwinMake";         // fresh second iterator, a pulled from front, b from back
    SwapTwin = 19, "SwapTwin";         // mem::swap(&mut it, &mut twin): both iterators change address, each must keep its own elements
    CloneProbe = 31, "CloneProbe";     // capability probes: a = 0 it.clone() iff Clone | 1 it.partial_cmp(it) iff PartialOrd | 2 it.as_ref() iff AsRef<[T]> | 3 It::default() iff Default; f = panic in the f-th element clone / comparison / default
    ItCollect = 32, "ItCollect";       // It -> V; a = 0 collect, 1 rev().collect(), 2 skip(b).collect(); f = default-panic k
    Exhaust = 33, "Exhaust";           // for x in it.by_ref() { bag.push(x) }
    NextIntoInner = 34, "NextIntoInner"; // nested: pull one row/column vector and start an inner iterator on it
    InnerNext = 35, "InnerNext";
    InnerNextBack = 36, "InnerNextBack";
    InnerObserve = 37, "InnerObserve";
    InnerDrop = 38, "InnerDrop";
    Adapt = 39, "Adapt";               // a std-provided method on it.by_ref(): a = which (ADAPT_NAMES), b = k | keep<<8, f = closure-panic at the f-th callback
    // ---- terminals ----
    Drop = 40, "Drop";                 // drop whatever form is held; f = drop-panic k
    Forget = 41, "Forget";             // mem::forget
    Last = 42, "Last";
    Count = 43, "Count";
    Fold = 44, "Fold";
    Rfold = 45, "Rfold";
    Fresh = 46, "Fresh";               // Gone -> Arr with new elements
    Consume = 47, "Consume";           // a std-provided consuming method on the iterator by value: a = which (CONSUME_NAMES), b = keep, f = closure-panic
    // ---- matrix forms ----
    MFromFlat = 60, "MFromFlat";       // a: bit0 = by columns; Flat -> M  (from_row_array / from_col_array)
    MFromNested = 61, "MFromNested";   // a: bit0 = by columns; Nested -> M (from_row_arrays / from_col_arrays)
    MIntoFlat = 62, "MIntoFlat";       // into_row_array / into_col_array
    MIntoNested = 63, "MIntoNested";   // into_row_arrays / into_col_arrays
    MNew = 64, "MNew";                 // Flat -> M::new(m00, m01, ..)
    FlatToNested = 65, "FlatToNested"; // harness only
    NestedToFlat = 66, "NestedToFlat"; // harness only
    MSwitchLayout = 67, "MSwitchLayout"; // From<other layout>
    MTranspose = 68, "MTranspose";     // a: bit0 = in place
    MSliceRead = 69, "MSliceRead";     // as_row_slice / as_col_slice (whichever the layout has)
    MSliceSwap = 70, "MSliceSwap";     // b = i | j<<8
    MSliceReplace = 71, "MSliceReplace";
    MIndex = 72, "MIndex";             // m[(i,j)], b = i | j<<8 ; a bit0 = replace through IndexMut
    MTakeLines = 73, "MTakeLines";     // M -> its public `rows` / `cols` vector-of-vectors (then vector ops apply)
    MMapRows = 74, "MMapRows";         // a % 3: 0 map_rows / map_cols | 1 map | 2 map2 (second operand destroyed by the closure); identity closure that may panic (f)
    MClone = 76, "MClone";             // let c = m.clone(); drop(c); f = panic in the f-th element clone
    MDiagonal = 78, "MDiagonal";       // m.diagonal(): the diagonal elements in order, everything else destroyed once; terminal
    MShrink = 77, "MShrink";           // truncating conversion to a smaller matrix type (a = which), result checked and dropped; terminal
    MArith = 79, "MArith";             // a % 5: 0 m + w | 1 -m | 2 M::default() (identity; b bit0 = column-major), dropped at once | 3, 4 through another matrix size and back (zero()/one() padding, truncation); b bit 8 = operators return their last operand; f = operator panic (0, 1) / zero()-one() panic (2..4)
    MObserve = 75, "MObserve";         // a = Debug|Hash|Eq|Display on the matrix, f = observe-panic k
}

#[derive(Clone, Copy, PartialEq, Eq, Debug, Hash)]
pub struct Op {
    pub k: OpK,
    pub a: u32,
    pub b: u32,
    /// fault annotation (0 = none): the k-th callback of the relevant class unwinds
    pub f: u32,
}

impl Op {
    pub fn new(k: OpK) -> Op {
        Op { k, a: 0, b: 0, f: 0 }
    }
    pub fn a(k: OpK, a: u32) -> Op {
        Op { k, a, b: 0, f: 0 }
    }
    pub fn ab(k: OpK, a: u32, b: u32) -> Op {
        Op { k, a, b, f: 0 }
    }
    pub fn abf(k: OpK, a: u32, b: u32, f: u32) -> Op {
        Op { k, a, b, f }
    }
}

/// Container kinds (stable indices; part of replay files).
/// 0..13 = the vector types of `adapters::VEC_KINDS`; 13.. = matrices.
pub const N_VEC_KINDS: usize = 13;
pub const MAT_KINDS: [(&str, usize, bool); 6] = [
    ("row_major::Mat2", 2, false),
    ("row_major::Mat3", 3, false),
    ("row_major::Mat4", 4, false),
    ("column_major::Mat2", 2, true),
    ("column_major::Mat3", 3, true),
    ("column_major::Mat4", 4, true),
];
pub const N_KINDS: usize = N_VEC_KINDS + 6;

pub fn kind_name(k: usize) -> &'static str {
    if k < N_VEC_KINDS {
        crate::adapters::VEC_KINDS[k].0
    } else {
        MAT_KINDS[k - N_VEC_KINDS].0
    }
}
pub fn kind_from_name(s: &str) -> Option<usize> {
    (0..N_KINDS).find(|&k| kind_name(k) == s)
}
/// Number of elements of the iterator a kind ends up driving (N for vectors; n lines for matrices).
pub fn kind_dim(k: usize) -> usize {
    if k < N_VEC_KINDS {
        crate::adapters::VEC_KINDS[k].1
    } else {
        MAT_KINDS[k - N_VEC_KINDS].1
    }
}

#[derive(Clone, Debug, PartialEq, Eq)]
pub struct Plan {
    pub kind: usize,
    /// false = clean class (no fault annotations at all), true = fault-injecting class
    pub faulty: bool,
    /// element shape for vector kinds: 0 = `Tok` (8 bytes, align 4), 1 = `Wide` (256 bytes, align 16), 2 = `Plain` (no drop glue), 3 = `ZDrop` (zero-sized, drop glue; counting oracle)
    pub elem: u8,
    /// every element carries the same payload value (identities stay distinct)
    pub uniform: bool,
    pub ops: Vec<Op>,
}
pub const ELEM_NAMES: [&str; 4] = ["Tok", "Wide256", "PlainNoDrop", "ZstDrop"];

/// The std-provided `Iterator` / `DoubleEndedIterator` methods driven through `it.by_ref()`
/// (operation `Adapt`). A realistic change is overriding one of them "for speed".
pub const ADAPT_NAMES: [&str; 23] = [
    "find", "rfind", "position", "rposition", "any", "all", "try_fold", "try_rfold", "try_for_each", "take_while+for_each", "skip_while+next",
    "for_each", "rev+for_each", "zip+for_each", "step_by+take+for_each", "peekable+peek", "collect<Vec>", "max_by_key", "min_by_key", "reduce",
    "rev+last", "count", "last",
];
pub const N_ADAPT: u32 = 23;
pub fn adapt_back(which: u32) -> bool {
    matches!(which, 1 | 3 | 7 | 12 | 20)
}
/// step_by parameters derived from k: (step, take)
pub fn adapt_step(k: usize) -> (usize, usize) {
    (1 + k % 3, 1 + (k / 3) % 3)
}
/// How many elements the adaptor consumes from an iterator holding `len` elements, by the
/// documented semantics of the std adaptor (k already reduced modulo len + 2).
pub fn adapt_planned(which: u32, k: usize, len: usize) -> usize {
    match which {
        0..=10 => (k + 1).min(len),
        13 => (k + 1).min(len),
        14 => {
            let (s, t) = adapt_step(k);
            (1 + (t - 1) * s).min(len)
        }
        15 => 1.min(len),
        _ => len,
    }
}
/// Every consumed element is shown to the callback, in order.
pub fn adapt_exact(which: u32) -> bool {
    which <= 12 || which == 17 || which == 18
}
/// The callback is shown the element by reference (`&Item`): when it panics, an implementation
/// that tests candidates in place may legitimately still hold that element.
pub fn adapt_by_ref(which: u32) -> bool {
    matches!(which, 0 | 1 | 9 | 10 | 15 | 17 | 18)
}
pub const CONSUME_NAMES: [&str; 6] = ["for_each", "rev+for_each", "max_by_key", "min_by_key", "reduce", "collect<Vec>"];
pub const N_CONSUME: u32 = 6;
