//! One run = one plan executed from a clean ledger to quiescence. Pure function of the plan.

use std::panic::{catch_unwind, AssertUnwindSafe};

use crate::adapters::*;
use crate::exec::*;
use crate::mat::*;
use crate::ops::*;
use crate::rng::fnv_step;
use crate::stats::*;
use crate::tok::{self, Tok, Violation, EV_OP, V7_LEAK};

#[derive(Clone, Debug)]
pub struct Outcome {
    pub violation: Option<Violation>,
    /// kind of the operation during which the violation was raised (None = at quiescence)
    pub viol_op: Option<OpK>,
    pub digest: u64,
    pub nevents: u64,
    pub executed: u32,
    pub skipped: u32,
    pub nontrivial: bool,
    pub harness_error: Option<String>,
    pub trace: Vec<String>,
}

struct Flags {
    pulled: bool,
    nontrivial: bool,
    chain: u32,
}
impl Flags {
    fn see(&mut self, op: Op) {
        use OpK::*;
        match op.k {
            Next | NextBack | Nth | NthBack | TakeCount | RevTakeDrop | Exhaust | NextIntoInner | Adapt => self.pulled = true,
            Observe | Drop | Forget | Last | Count | Fold | Rfold | ItCollect | CloneProbe | InnerObserve | Consume => {
                if self.pulled {
                    self.nontrivial = true;
                }
            }
            ArrToV | VNew | TupToV | VToArr | VToTup | FromIterStub | MFromFlat | MFromNested | MIntoFlat | MIntoNested | MNew | MSwitchLayout | MTranspose | VMap | MMapRows => {
                self.chain += 1;
                if self.chain >= 2 {
                    self.nontrivial = true;
                }
            }
            _ => {}
        }
        if op.f > 0 && self.pulled {
            self.nontrivial = true;
        }
    }
}

fn set_step(i: u32) {
    tok::with(|l| l.step = i);
}

fn leak_check() {
    let leak = tok::with(|l| l.recs.iter().position(|r| r.st == tok::St::Live && !r.nodrop));
    if let Some(id) = leak {
        let (origin, owner) = tok::with(|l| (l.recs[id].origin, l.recs[id].owner));
        tok::raise(V7_LEAK, format!("at quiescence id {} ({:?}, last owner {}) is still alive: leaked", id, origin, tok::owner_name(owner)));
    }
}

fn op_code(op: Op) -> u64 {
    (op.k as u64) | (op.a as u64 & 0xffff) << 8 | (op.b as u64 & 0xffff) << 24 | (op.f as u64 & 0xffff) << 40
}

fn run_zst<K: Kind<crate::zexec::ZDrop>>(plan: &Plan, st: &mut Stats, fl: &mut Flags, counts: &mut (u32, u32), viol_op: &mut Option<OpK>)
where
    crate::zexec::ZExec<K>: crate::zexec::ZStepper,
{
    use crate::zexec::ZStepper;
    let mut ex = crate::zexec::ZExec::<K>::new();
    ex.start(st);
    for (i, op) in plan.ops.iter().enumerate() {
        set_step(i as u32);
        tok::note(EV_OP, op_code(*op));
        tok::trace_line(|| format!("  step {}: {:?}", i, op));
        if ex.step(*op) {
            counts.0 += 1;
            st.op_counts[(op.k as usize).min(N_OPK - 1)] += 1;
            fl.see(*op);
        } else {
            counts.1 += 1;
            tok::trace_line(|| "    (skipped: not modelled for zero-sized elements, or precondition does not hold)".to_string());
        }
        if tok::has_violation() {
            *viol_op = Some(op.k);
            break;
        }
    }
    set_step(u32::MAX);
    tok::trace_line(|| "  end of run: everything still held is dropped".to_string());
    ex.finish();
}

fn run_vec<K: Kind<Tok> + Kind<Wide> + Kind<tok::Plain> + Kind<crate::zexec::ZDrop>>(plan: &Plan, st: &mut Stats, fl: &mut Flags, counts: &mut (u32, u32), viol_op: &mut Option<OpK>)
where
    for<'a> VecExec<'a, K, Tok>: Stepper<K, Tok>,
    for<'a> VecExec<'a, K, Wide>: Stepper<K, Wide>,
    for<'a> VecExec<'a, K, tok::Plain>: Stepper<K, tok::Plain>,
    crate::zexec::ZExec<K>: crate::zexec::ZStepper,
{
    if plan.elem == 1 {
        st.runs_wide += 1;
        run_vec_x::<K, Wide>(plan, st, fl, counts, viol_op)
    } else if plan.elem == 2 {
        st.runs_plain += 1;
        run_vec_x::<K, tok::Plain>(plan, st, fl, counts, viol_op)
    } else if plan.elem == 3 {
        st.runs_zst += 1;
        run_zst::<K>(plan, st, fl, counts, viol_op)
    } else {
        run_vec_x::<K, Tok>(plan, st, fl, counts, viol_op)
    }
}

fn run_vec_x<K: Kind<X>, X: Item>(plan: &Plan, st: &mut Stats, fl: &mut Flags, counts: &mut (u32, u32), viol_op: &mut Option<OpK>)
where
    for<'a> VecExec<'a, K, X>: Stepper<K, X>,
{
    let mut ex = VecExec::<K, X>::new(plan.kind, st);
    ex.uniform = plan.uniform;
    if plan.uniform {
        ex.st.runs_uniform += 1;
    }
    ex.start_fresh_arr();
    for (i, op) in plan.ops.iter().enumerate() {
        set_step(i as u32);
        tok::note(EV_OP, op_code(*op));
        tok::trace_line(|| format!("  step {}: {:?}", i, op));
        if ex.step(*op) {
            counts.0 += 1;
            ex.st.op_counts[(op.k as usize).min(N_OPK - 1)] += 1;
            fl.see(*op);
        } else {
            counts.1 += 1;
            tok::trace_line(|| "    (skipped: precondition does not hold)".to_string());
        }
        if tok::has_violation() {
            *viol_op = Some(op.k);
            break;
        }
    }
    set_step(u32::MAX);
    tok::trace_line(|| "  end of run: everything still held is dropped".to_string());
    ex.finish();
}

fn run_mat<F: MatFam<L>, L: Leaf>(plan: &Plan, home_cm: bool, st: &mut Stats, fl: &mut Flags, counts: &mut (u32, u32), viol_op: &mut Option<OpK>)
where
    for<'a> VecExec<'a, F::LK, F::Line>: Stepper<F::LK, F::Line>,
{
    let mut mx = MatExec::<F, L>::new(home_cm);
    mx.start_fresh(st);
    let mut idx = 0usize;
    let mut handed: Option<(<F::LK as Kind<F::Line>>::V, Vec<Grp>)> = None;
    while idx < plan.ops.len() {
        let op = plan.ops[idx];
        set_step(idx as u32);
        tok::note(EV_OP, op_code(op));
        tok::trace_line(|| format!("  step {}: {:?}", idx, op));
        idx += 1;
        if op.k == OpK::MTakeLines {
            if let Some(h) = mx.take_lines() {
                counts.0 += 1;
                st.op_counts[op.k as usize] += 1;
                handed = Some(h);
                break;
            }
            counts.1 += 1;
            continue;
        }
        if mx.step(op, st) {
            counts.0 += 1;
            st.op_counts[(op.k as usize).min(N_OPK - 1)] += 1;
            fl.see(op);
        } else {
            counts.1 += 1;
            tok::trace_line(|| "    (skipped: precondition does not hold)".to_string());
        }
        if tok::has_violation() {
            *viol_op = Some(op.k);
            break;
        }
    }
    if let Some((v, model)) = handed {
        let mut ex = VecExec::<F::LK, F::Line>::new(plan.kind, st);
        ex.start_from_v(v, model);
        if tok::has_violation() {
            *viol_op = Some(OpK::MTakeLines);
        }
        while idx < plan.ops.len() && !tok::has_violation() {
            let op = plan.ops[idx];
            set_step(idx as u32);
            tok::note(EV_OP, op_code(op));
            tok::trace_line(|| format!("  step {}: {:?}", idx, op));
            idx += 1;
            if ex.step(op) {
                counts.0 += 1;
                ex.st.op_counts[(op.k as usize).min(N_OPK - 1)] += 1;
                fl.see(op);
            } else {
                counts.1 += 1;
                tok::trace_line(|| "    (skipped: precondition does not hold)".to_string());
            }
            if tok::has_violation() {
                *viol_op = Some(op.k);
            }
        }
        set_step(u32::MAX);
        tok::trace_line(|| "  end of run: everything still held is dropped".to_string());
        ex.finish();
    } else {
        set_step(u32::MAX);
        tok::trace_line(|| "  end of run: everything still held is dropped".to_string());
        mx.finish(st);
    }
}

pub fn execute(plan: &Plan, st: &mut Stats, trace: bool) -> Outcome {
    tok::reset(trace);
    let mut fl = Flags { pulled: false, nontrivial: false, chain: 0 };
    let mut counts = (0u32, 0u32);
    let mut viol_op: Option<OpK> = None;
    let r = catch_unwind(AssertUnwindSafe(|| {
        match plan.kind {
            0 => run_vec::<KVec2>(plan, st, &mut fl, &mut counts, &mut viol_op),
            1 => run_vec::<KVec3>(plan, st, &mut fl, &mut counts, &mut viol_op),
            2 => run_vec::<KVec4>(plan, st, &mut fl, &mut counts, &mut viol_op),
            3 => run_vec::<KVec8>(plan, st, &mut fl, &mut counts, &mut viol_op),
            4 => run_vec::<KVec16>(plan, st, &mut fl, &mut counts, &mut viol_op),
            5 => run_vec::<KVec32>(plan, st, &mut fl, &mut counts, &mut viol_op),
            6 => run_vec::<KVec64>(plan, st, &mut fl, &mut counts, &mut viol_op),
            7 => run_vec::<KExtent2>(plan, st, &mut fl, &mut counts, &mut viol_op),
            8 => run_vec::<KExtent3>(plan, st, &mut fl, &mut counts, &mut viol_op),
            9 => run_vec::<KRgb>(plan, st, &mut fl, &mut counts, &mut viol_op),
            10 => run_vec::<KRgba>(plan, st, &mut fl, &mut counts, &mut viol_op),
            11 => run_vec::<KUv>(plan, st, &mut fl, &mut counts, &mut viol_op),
            12 => run_vec::<KUvw>(plan, st, &mut fl, &mut counts, &mut viol_op),
            13..=18 if plan.elem == 3 => {
                st.runs_zst += 1;
                let cm = plan.kind >= 16;
                let mut vo: Option<OpK> = None;
                let mut cnt = (0u32, 0u32);
                let mut exec_ops: Vec<OpK> = Vec::new();
                let cb = |_: usize, op: Op, done: bool| {
                    if done {
                        cnt.0 += 1;
                        exec_ops.push(op.k);
                    } else {
                        cnt.1 += 1;
                    }
                    if tok::has_violation() && vo.is_none() {
                        vo = Some(op.k);
                    }
                };
                match (plan.kind - 13) % 3 {
                    0 => crate::zmat::run(crate::zmat::ZM2::Gone, cm, &plan.ops, cb),
                    1 => crate::zmat::run(crate::zmat::ZM3::Gone, cm, &plan.ops, cb),
                    _ => crate::zmat::run(crate::zmat::ZM4::Gone, cm, &plan.ops, cb),
                }
                counts.0 += cnt.0;
                counts.1 += cnt.1;
                for k in exec_ops {
                    st.op_counts[(k as usize).min(N_OPK - 1)] += 1;
                }
                if vo.is_some() {
                    viol_op = vo;
                }
            }
            13 => match plan.elem {
                1 => {
                    st.runs_wide += 1;
                    run_mat::<Fam2, Wide>(plan, false, st, &mut fl, &mut counts, &mut viol_op)
                }
                2 => {
                    st.runs_plain += 1;
                    run_mat::<Fam2, tok::Plain>(plan, false, st, &mut fl, &mut counts, &mut viol_op)
                }
                _ => run_mat::<Fam2, Tok>(plan, false, st, &mut fl, &mut counts, &mut viol_op),
            },
            14 => match plan.elem {
                1 => {
                    st.runs_wide += 1;
                    run_mat::<Fam3, Wide>(plan, false, st, &mut fl, &mut counts, &mut viol_op)
                }
                2 => {
                    st.runs_plain += 1;
                    run_mat::<Fam3, tok::Plain>(plan, false, st, &mut fl, &mut counts, &mut viol_op)
                }
                _ => run_mat::<Fam3, Tok>(plan, false, st, &mut fl, &mut counts, &mut viol_op),
            },
            15 => match plan.elem {
                1 => {
                    st.runs_wide += 1;
                    run_mat::<Fam4, Wide>(plan, false, st, &mut fl, &mut counts, &mut viol_op)
                }
                2 => {
                    st.runs_plain += 1;
                    run_mat::<Fam4, tok::Plain>(plan, false, st, &mut fl, &mut counts, &mut viol_op)
                }
                _ => run_mat::<Fam4, Tok>(plan, false, st, &mut fl, &mut counts, &mut viol_op),
            },
            16 => match plan.elem {
                1 => {
                    st.runs_wide += 1;
                    run_mat::<Fam2, Wide>(plan, true, st, &mut fl, &mut counts, &mut viol_op)
                }
                2 => {
                    st.runs_plain += 1;
                    run_mat::<Fam2, tok::Plain>(plan, true, st, &mut fl, &mut counts, &mut viol_op)
                }
                _ => run_mat::<Fam2, Tok>(plan, true, st, &mut fl, &mut counts, &mut viol_op),
            },
            17 => match plan.elem {
                1 => {
                    st.runs_wide += 1;
                    run_mat::<Fam3, Wide>(plan, true, st, &mut fl, &mut counts, &mut viol_op)
                }
                2 => {
                    st.runs_plain += 1;
                    run_mat::<Fam3, tok::Plain>(plan, true, st, &mut fl, &mut counts, &mut viol_op)
                }
                _ => run_mat::<Fam3, Tok>(plan, true, st, &mut fl, &mut counts, &mut viol_op),
            },
            18 => match plan.elem {
                1 => {
                    st.runs_wide += 1;
                    run_mat::<Fam4, Wide>(plan, true, st, &mut fl, &mut counts, &mut viol_op)
                }
                2 => {
                    st.runs_plain += 1;
                    run_mat::<Fam4, tok::Plain>(plan, true, st, &mut fl, &mut counts, &mut viol_op)
                }
                _ => run_mat::<Fam4, Tok>(plan, true, st, &mut fl, &mut counts, &mut viol_op),
            },
            k => panic!("harness: unknown kind {}", k),
        }
        if !tok::has_violation() {
            leak_check();
        }
    }));
    let harness_error = match r {
        Ok(()) => None,
        Err(_) => Some(LAST_PANIC.with(|p| p.borrow().clone())),
    };
    let (violation, digest, nevents, trace_lines, d, t, df) = tok::with(|l| {
        (l.viol.clone(), l.digest, l.nevents, l.trace.take().unwrap_or_default(), l.total_drops, l.total_touches, l.total_defaults)
    });
    st.runs += 1;
    st.kind_runs[plan.kind.min(N_KINDS - 1)] += 1;
    if plan.faulty {
        st.runs_faulty += 1;
    }
    if fl.nontrivial {
        st.runs_nontrivial += 1;
    }
    st.ops_exec += counts.0 as u64;
    st.ops_skipped += counts.1 as u64;
    st.callbacks_drop += d;
    st.callbacks_touch += t;
    st.callbacks_default += df;
    // the outcome digest also covers the verdict, so a replay must match it bit for bit
    let mut dg = digest;
    if let Some(v) = &violation {
        dg = fnv_step(fnv_step(dg, v.class as u64), v.step as u64);
    }
    Outcome {
        violation,
        viol_op,
        digest: dg,
        nevents,
        executed: counts.0,
        skipped: counts.1,
        nontrivial: fl.nontrivial,
        harness_error,
        trace: trace_lines,
    }
}

pub fn plan_hash(p: &Plan) -> u64 {
    let mut h = fnv_step(crate::rng::FNV_INIT, p.kind as u64 | (p.elem as u64) << 32 | (p.uniform as u64) << 40);
    for op in &p.ops {
        h = fnv_step(h, op_code(*op));
    }
    h
}
