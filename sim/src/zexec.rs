//! A fourth element shape: a **zero-sized** element with drop glue. Such an element cannot
//! carry an identity, so these runs use a counting oracle instead of the ledger: after every
//! operation `created - destroyed - forgotten` must equal the number of elements the model says
//! are alive (in the container under test plus those the caller holds), `len()`/`size_hint()`
//! must equal the remaining count and pulls must yield exactly while elements remain.
//!
//! Why it exists: code that walks elements by pointer arithmetic (`ptr.add(1)` until `end`)
//! silently does nothing for zero-sized types; the classic symptom is a consuming iterator whose
//! `Drop` leaks whatever it still holds (seeded changes S19/S22).
//!
//! The interpreter reads the same plans as the main executor and skips what it does not model.

use std::cell::Cell;

use crate::adapters::*;
use crate::exec::guard_nopanic;
use crate::ops::*;
use crate::stats::*;
use crate::tok::{self, Injected, *};

thread_local! {
    static ZC: Cell<(u64, u64)> = Cell::new((0, 0)); // (created, destroyed)
}

/// Zero-sized, not `Copy`, with drop glue.
pub struct ZDrop;
impl ZDrop {
    pub fn new() -> ZDrop {
        ZC.with(|c| {
            let (a, b) = c.get();
            c.set((a + 1, b));
        });
        ZDrop
    }
}
impl Drop for ZDrop {
    fn drop(&mut self) {
        ZC.with(|c| {
            let (a, b) = c.get();
            c.set((a, b + 1));
        });
        tok::note(EV_DROP, u64::MAX);
    }
}
impl Default for ZDrop {
    fn default() -> ZDrop {
        ZDrop::new()
    }
}
impl Clone for ZDrop {
    fn clone(&self) -> ZDrop {
        ZDrop::new()
    }
}
impl std::fmt::Debug for ZDrop {
    fn fmt(&self, f: &mut std::fmt::Formatter<'_>) -> std::fmt::Result {
        f.write_str("z")
    }
}
impl std::fmt::Display for ZDrop {
    fn fmt(&self, f: &mut std::fmt::Formatter<'_>) -> std::fmt::Result {
        f.write_str("z")
    }
}
impl std::hash::Hash for ZDrop {
    fn hash<H: std::hash::Hasher>(&self, _: &mut H) {}
}
impl PartialEq for ZDrop {
    fn eq(&self, _: &ZDrop) -> bool {
        true
    }
}
thread_local! {
    /// fault kind F11 for zero-sized elements: the operator call that unwinds (0 = none), calls so far, fired
    static ZTICK: Cell<(u32, u32, bool)> = Cell::new((0, 0, false));
}
pub fn ztick_arm(k: u32) {
    ZTICK.with(|c| c.set((k, 0, false)));
}
pub fn ztick_take() -> (u32, bool) {
    ZTICK.with(|c| {
        let (_, n, f) = c.get();
        c.set((0, 0, false));
        (n, f)
    })
}
fn ztick() {
    let inject = ZTICK.with(|c| {
        let (k, n, f) = c.get();
        let hit = k != 0 && n + 1 == k && !std::thread::panicking();
        c.set((k, n + 1, f || hit));
        hit
    });
    if inject {
        tok::note(EV_INJECT, 9100);
        std::panic::panic_any(Injected);
    }
}
// arithmetic (operation `VArith`): every operator destroys all operands but one
impl<'a> std::ops::Add<&'a ZDrop> for ZDrop {
    type Output = ZDrop;
    fn add(self, _rhs: &'a ZDrop) -> ZDrop {
        ztick();
        self
    }
}
macro_rules! z_binop {
    ($($Tr:ident $m:ident),+) => {$(
        impl std::ops::$Tr<ZDrop> for ZDrop {
            type Output = ZDrop;
            fn $m(self, rhs: ZDrop) -> ZDrop {
                ztick();
                drop(rhs);
                self
            }
        }
    )+};
}
macro_rules! z_assign {
    ($($Tr:ident $m:ident),+) => {$(
        impl std::ops::$Tr<ZDrop> for ZDrop {
            fn $m(&mut self, rhs: ZDrop) {
                ztick();
                drop(rhs);
            }
        }
    )+};
}
z_binop!(Add add, Sub sub, Mul mul, Div div, Rem rem, BitAnd bitand, BitOr bitor, BitXor bitxor, Shl shl, Shr shr);
z_assign!(AddAssign add_assign, SubAssign sub_assign, MulAssign mul_assign, DivAssign div_assign, RemAssign rem_assign, BitAndAssign bitand_assign, BitOrAssign bitor_assign, BitXorAssign bitxor_assign, ShlAssign shl_assign, ShrAssign shr_assign);
impl std::ops::Not for ZDrop {
    type Output = ZDrop;
    fn not(self) -> ZDrop {
        ztick();
        self
    }
}
impl std::ops::Neg for ZDrop {
    type Output = ZDrop;
    fn neg(self) -> ZDrop {
        ztick();
        self
    }
}
impl vek::num_traits::MulAdd<ZDrop, ZDrop> for ZDrop {
    type Output = ZDrop;
    fn mul_add(self, a: ZDrop, b: ZDrop) -> ZDrop {
        ztick();
        drop(a);
        drop(self);
        b
    }
}
impl vek::num_traits::Zero for ZDrop {
    fn zero() -> ZDrop {
        ZDrop::new()
    }
    fn is_zero(&self) -> bool {
        false
    }
}
impl vek::num_traits::One for ZDrop {
    fn one() -> ZDrop {
        ZDrop::new()
    }
}
impl Item for ZDrop {
    const W: usize = 1;
    fn grp(&self) -> Grp {
        Grp::EMPTY
    }
    fn fresh(_pos: u32, _owner: u8) -> Self {
        ZDrop::new()
    }
    type Leaf = ZDrop;
    type Inner = NoInner<ZDrop>;
    fn into_inner(self) -> Result<NoInner<ZDrop>, Self> {
        Err(self)
    }
}
impl Leaf for ZDrop {
    fn lid(&self) -> u32 {
        0
    }
    fn lval(&self) -> u32 {
        0
    }
    fn mk(_val: u32, _owner: u8) -> Self {
        ZDrop::new()
    }
}

pub fn counts() -> (u64, u64) {
    ZC.with(|c| c.get())
}

/// The conservation law of the counting oracle: `created - destroyed - forgotten == owned`.
pub fn conserve(base: (u64, u64), forgotten: u64, want: u64, after: &str) {
    let (c, d) = counts();
    let (c, d) = (c - base.0, d - base.1);
    let have = c as i64 - d as i64 - forgotten as i64;
    if have > want as i64 {
        tok::raise(V7_LEAK, format!("zero-sized elements: after {}: {} created, {} destroyed, {} forgotten, but only {} are still owned by anyone: {} leaked", after, c, d, forgotten, want, have - want as i64));
    } else if have < want as i64 {
        tok::raise(V1_DOUBLE_DROP, format!("zero-sized elements: after {}: {} created, {} destroyed, {} forgotten, yet {} are still owned: {} destroyed more than once", after, c, d, forgotten, want, want as i64 - have));
    }
}

enum ZForm<K: Kind<ZDrop>> {
    Arr(K::Arr),
    Tup(K::Tup),
    V(K::V),
    It(K::It, usize),
    Gone,
}

pub struct ZExec<K: Kind<ZDrop>> {
    form: ZForm<K>,
    held: Vec<ZDrop>,
    forgotten: u64,
    base: (u64, u64),
}

pub trait ZStepper {
    fn start(&mut self, st: &mut Stats);
    fn step(&mut self, op: Op) -> bool;
    fn finish(&mut self);
}

impl<K: Kind<ZDrop>> ZExec<K> {
    pub fn new() -> Self {
        ZExec { form: ZForm::Gone, held: Vec::new(), forgotten: 0, base: counts() }
    }

}

/// Like the main executor, instantiated per concrete vector type so that method calls on the
/// iterator resolve as in user code.
macro_rules! zexec_impl {
    ($K:ty) => {
impl ZExec<$K> {
    fn in_form(&self) -> u64 {
        match &self.form {
            ZForm::Arr(_) | ZForm::Tup(_) | ZForm::V(_) => <$K as Kind<ZDrop>>::N as u64,
            ZForm::It(_, r) => *r as u64,
            ZForm::Gone => 0,
        }
    }

    /// The conservation law, checked after every operation.
    fn conserve(&self, after: &str) {
        let (c, d) = counts();
        let (c, d) = (c - self.base.0, d - self.base.1);
        let want = self.in_form() + self.held.len() as u64;
        let have = c as i64 - d as i64 - self.forgotten as i64;
        if have > want as i64 {
            tok::raise(V7_LEAK, format!("zero-sized elements: after {}: {} created, {} destroyed, {} forgotten, but only {} are still owned by anyone: {} leaked", after, c, d, self.forgotten, want, have - want as i64));
        } else if have < want as i64 {
            tok::raise(V1_DOUBLE_DROP, format!("zero-sized elements: after {}: {} created, {} destroyed, {} forgotten, yet {} are still owned: {} destroyed more than once", after, c, d, self.forgotten, want, want as i64 - have));
        }
    }

    fn check_len(&self, after: &str) {
        if let ZForm::It(it, r) = &self.form {
            if let Some((l, sh)) = guard_nopanic("len/size_hint", 0, 0, || (it.len(), it.size_hint())) {
                if l != *r || sh != (*r, Some(*r)) {
                    tok::raise(V6_LENGTH, format!("zero-sized elements: after {}: len() = {}, size_hint() = {:?}, but {} elements remain", after, l, sh, r));
                }
            }
        }
    }

    pub fn start(&mut self, st: &mut Stats) {
        let items: Vec<ZDrop> = (0..<$K as Kind<ZDrop>>::N).map(|_| ZDrop::new()).collect();
        st.elements_created += <$K as Kind<ZDrop>>::N as u64;
        self.form = ZForm::Arr(<$K as Kind<ZDrop>>::arr_from_vec(items));
    }

    fn pulled(&mut self, got: Option<ZDrop>, expect_some: bool, keep: bool, what: &str) {
        match (got, expect_some) {
            (Some(x), true) => {
                if keep {
                    self.held.push(x);
                } else {
                    drop(x);
                }
            }
            (None, false) => {}
            (Some(x), false) => {
                tok::raise(V6_LENGTH, format!("zero-sized elements: {} yielded an element although none remains", what));
                std::mem::forget(x);
            }
            (None, true) => tok::raise(V6_LENGTH, format!("zero-sized elements: {} returned None although elements remain", what)),
        }
    }

    pub fn step(&mut self, op: Op) -> bool {
        use OpK::*;
        let n = <$K as Kind<ZDrop>>::N;
        let done = match op.k {
            ArrToV | VNew => match std::mem::replace(&mut self.form, ZForm::Gone) {
                ZForm::Arr(a) => {
                    let isnew = op.k == VNew;
                    if let Some(v) = guard_nopanic("V::from([T; N])", 0, 0, move || if isnew { <$K as Kind<ZDrop>>::v_new(a) } else { <$K as Kind<ZDrop>>::v_from_arr(a) }) {
                        self.form = ZForm::V(v);
                    }
                    true
                }
                o => {
                    self.form = o;
                    false
                }
            },
            TupToV => match std::mem::replace(&mut self.form, ZForm::Gone) {
                ZForm::Tup(t) => {
                    if let Some(v) = guard_nopanic("V::from(tuple)", 0, 0, move || <$K as Kind<ZDrop>>::v_from_tup(t)) {
                        self.form = ZForm::V(v);
                    }
                    true
                }
                o => {
                    self.form = o;
                    false
                }
            },
            VToArr | VToTup => match std::mem::replace(&mut self.form, ZForm::Gone) {
                ZForm::V(v) => {
                    if op.k == VToArr {
                        if let Some(a) = guard_nopanic("into_array", 0, 0, move || <$K as Kind<ZDrop>>::v_into_arr(v)) {
                            self.form = ZForm::Arr(a);
                        }
                    } else if let Some(t) = guard_nopanic("into_tuple", 0, 0, move || <$K as Kind<ZDrop>>::v_into_tup(v)) {
                        self.form = ZForm::Tup(t);
                    }
                    true
                }
                o => {
                    self.form = o;
                    false
                }
            },
            ArrToTup => match std::mem::replace(&mut self.form, ZForm::Gone) {
                ZForm::Arr(a) => {
                    self.form = ZForm::Tup(<$K as Kind<ZDrop>>::tup_from_arr(a));
                    true
                }
                o => {
                    self.form = o;
                    false
                }
            },
            TupToArr => match std::mem::replace(&mut self.form, ZForm::Gone) {
                ZForm::Tup(t) => {
                    self.form = ZForm::Arr(<$K as Kind<ZDrop>>::arr_from_tup(t));
                    true
                }
                o => {
                    self.form = o;
                    false
                }
            },
            VIntoIter => match std::mem::replace(&mut self.form, ZForm::Gone) {
                ZForm::V(v) => {
                    if let Some(it) = guard_nopanic("into_iter", 0, 0, move || <$K as Kind<ZDrop>>::v_into_iter(v)) {
                        self.form = ZForm::It(it, n);
                    }
                    true
                }
                o => {
                    self.form = o;
                    false
                }
            },
            SliceRead => match &self.form {
                ZForm::V(v) => {
                    let via = (op.a % N_VIA as u32) as u8;
                    if let Some(l) = guard_nopanic("slice view", 0, 0, || <$K as Kind<ZDrop>>::v_slice(v, via).len()) {
                        if l != n {
                            tok::raise(V9_ALIAS, format!("zero-sized elements: {} has length {} on a {}-element {}", via_name(via, false), l, n, <$K as Kind<ZDrop>>::NAME));
                        }
                    }
                    true
                }
                _ => false,
            },
            Next | NextBack | Nth | NthBack => {
                let (it, rem) = match &mut self.form {
                    ZForm::It(it, r) => (it, r),
                    _ => return false,
                };
                let k = if matches!(op.k, Nth | NthBack) { op.a as usize % (*rem + 2) } else { 0 };
                let expect_some = k < *rem;
                let kind = op.k;
                let got = guard_nopanic(kind.name(), 0, 0, || match kind {
                    Next => it.next(),
                    NextBack => it.next_back(),
                    Nth => it.nth(k),
                    _ => it.nth_back(k),
                });
                *rem -= (k + 1).min(*rem);
                if let Some(g) = got {
                    self.pulled(g, expect_some, op.b & 1 == 1, kind.name());
                }
                true
            }
            Len | SizeHint => matches!(self.form, ZForm::It(..)),
            TakeCount | RevTakeDrop => {
                let (it, rem) = match &mut self.form {
                    ZForm::It(it, r) => (it, r),
                    _ => return false,
                };
                let k = op.a as usize % (*rem + 2);
                let p = k.min(*rem);
                let back = op.k == RevTakeDrop;
                if let Some(c) = guard_nopanic(op.k.name(), 0, 0, || if back { it.by_ref().rev().take(k).count() } else { it.by_ref().take(k).count() }) {
                    if c != p {
                        tok::raise(V6_LENGTH, format!("zero-sized elements: {} consumed {} elements, {} expected", op.k.name(), c, p));
                    }
                }
                *rem -= p;
                true
            }
            Exhaust => {
                let (it, rem) = match &mut self.form {
                    ZForm::It(it, r) => (it, r),
                    _ => return false,
                };
                let mut out: Vec<ZDrop> = Vec::new();
                let _ = guard_nopanic("for x in it.by_ref()", 0, 0, || {
                    for x in it.by_ref() {
                        out.push(x);
                        if out.len() > n + 2 {
                            break;
                        }
                    }
                });
                if out.len() != *rem {
                    tok::raise(V6_LENGTH, format!("zero-sized elements: the for-loop yielded {} elements, {} remained", out.len(), *rem));
                    std::mem::forget(out);
                    return true;
                }
                *rem = 0;
                self.held.extend(out);
                true
            }
            BagDrop => {
                if self.held.is_empty() {
                    return false;
                }
                drop(self.held.pop());
                true
            }
            Count | Last | Fold | Rfold => match std::mem::replace(&mut self.form, ZForm::Gone) {
                ZForm::It(it, rem) => {
                    match op.k {
                        Count => {
                            if let Some(c) = guard_nopanic("count", 0, 0, move || it.count()) {
                                if c != rem {
                                    tok::raise(V6_LENGTH, format!("zero-sized elements: count() = {} but {} remained", c, rem));
                                }
                            }
                        }
                        Last => {
                            if let Some(g) = guard_nopanic("last", 0, 0, move || it.last()) {
                                self.pulled(g, rem > 0, op.b & 1 == 1, "last");
                            }
                        }
                        _ => {
                            let back = op.k == Rfold;
                            let f = |mut acc: Vec<ZDrop>, x: ZDrop| {
                                if acc.len() <= n + 2 {
                                    acc.push(x);
                                } else {
                                    std::mem::forget(x);
                                }
                                acc
                            };
                            if let Some(out) = guard_nopanic(op.k.name(), 0, 0, move || if back { it.rfold(Vec::new(), f) } else { it.fold(Vec::new(), f) }) {
                                if out.len() != rem {
                                    tok::raise(V6_LENGTH, format!("zero-sized elements: {} handed over {} elements, {} remained", op.k.name(), out.len(), rem));
                                    std::mem::forget(out);
                                    return true;
                                }
                                self.held.extend(out);
                            }
                        }
                    }
                    true
                }
                o => {
                    self.form = o;
                    false
                }
            },
            ItCollect => match std::mem::replace(&mut self.form, ZForm::Gone) {
                ZForm::It(it, rem) => {
                    let mode = op.a % 3;
                    let k = if mode == 2 { op.b as usize % (rem + 2) } else { 0 };
                    if let Some(v) = guard_nopanic("collect", 0, 0, move || match mode {
                        0 => <$K as Kind<ZDrop>>::v_from_iter(it),
                        1 => <$K as Kind<ZDrop>>::v_from_iter(it.rev()),
                        _ => <$K as Kind<ZDrop>>::v_from_iter(it.skip(k)),
                    }) {
                        self.form = ZForm::V(v);
                    }
                    true
                }
                o => {
                    self.form = o;
                    false
                }
            },
            VKindConv => match std::mem::replace(&mut self.form, ZForm::Gone) {
                ZForm::V(v) => {
                    let specs = <$K as Kind<ZDrop>>::kc_specs();
                    if specs.is_empty() {
                        self.form = ZForm::V(v);
                        return false;
                    }
                    let variant = op.a as usize % specs.len();
                    let extras: Vec<ZDrop> = (0..specs[variant].extras).map(|_| ZDrop::new()).collect();
                    if let Some(v2) = guard_nopanic(specs[variant].name, 0, 0, move || <$K as Kind<ZDrop>>::v_kind_conv(v, variant, extras)) {
                        self.form = ZForm::V(v2);
                    }
                    true
                }
                o => {
                    self.form = o;
                    false
                }
            },
            VReduce => match std::mem::replace(&mut self.form, ZForm::Gone) {
                ZForm::V(v) => {
                    let keep_new = op.a % 2 == 1;
                    let mut calls = 0usize;
                    let pa = op.f as usize;
                    let mut fired = false;
                    let r = {
                        let calls = &mut calls;
                        let fired = &mut fired;
                        crate::exec::guard(0, 0, None, move || {
                            <$K as Kind<ZDrop>>::v_reduce(v, |a, b| {
                                *calls += 1;
                                if *calls > 80 {
                                    std::panic::panic_any(Injected);
                                }
                                // fault kind F7: the closure unwinds at its pa-th call
                                if pa != 0 && *calls == pa {
                                    *fired = true;
                                    tok::note(EV_INJECT, 7000 + *calls as u64);
                                    std::panic::panic_any(Injected);
                                }
                                if keep_new {
                                    drop(a);
                                    b
                                } else {
                                    drop(b);
                                    a
                                }
                            })
                        })
                        .0
                    };
                    let r = match r {
                        Ok(x) => Some(x),
                        Err(crate::exec::Thrown::Injected) if fired => None,
                        Err(crate::exec::Thrown::Injected) => {
                            tok::raise(V10_UNEXPECTED_PANIC, "zero-sized elements: reduce: an injected panic surfaced where none was planned, or the closure was called more than 80 times".to_string());
                            None
                        }
                        Err(crate::exec::Thrown::Genuine(msg)) => {
                            tok::raise(V10_UNEXPECTED_PANIC, format!("zero-sized elements: reduce panicked: {}", msg));
                            None
                        }
                    };
                    if r.is_some() && calls != n - 1 {
                        tok::raise(V5_ORDER, format!("zero-sized elements: reduce called its closure {} times on {} elements", calls, n));
                    }
                    drop(r);
                    true
                }
                o => {
                    self.form = o;
                    false
                }
            },
            VMap => match std::mem::replace(&mut self.form, ZForm::Gone) {
                ZForm::V(v) => {
                    let mode = op.a % 4;
                    let mk = || <$K as Kind<ZDrop>>::v_from_arr(<$K as Kind<ZDrop>>::arr_from_vec((0..n).map(|_| ZDrop::new()).collect()));
                    let mut calls = 0usize;
                    let pa = op.f as usize;
                    let mut fired = false;
                    let r = {
                        let calls = &mut calls;
                        let fired = &mut fired;
                        crate::exec::guard(0, 0, None, move || {
                            // fault kind F7: the closure unwinds at its pa-th call
                            let mut tick = move || {
                                *calls += 1;
                                if pa != 0 && *calls == pa {
                                    *fired = true;
                                    tok::note(EV_INJECT, 7000 + *calls as u64);
                                    std::panic::panic_any(Injected);
                                }
                            };
                            match mode {
                                0 => <$K as Kind<ZDrop>>::v_map(v, |x| {
                                    tick();
                                    x
                                }),
                                1 => <$K as Kind<ZDrop>>::v_zip_map(v, mk(), |x, y| {
                                    tick();
                                    drop(y);
                                    x
                                }),
                                2 => <$K as Kind<ZDrop>>::v_map2(v, mk(), |x, y| {
                                    tick();
                                    drop(y);
                                    x
                                }),
                                _ => <$K as Kind<ZDrop>>::v_map3(v, mk(), mk(), |x, y, z| {
                                    tick();
                                    drop(y);
                                    drop(z);
                                    x
                                }),
                            }
                        })
                        .0
                    };
                    match r {
                        Ok(v2) => {
                            if calls != n {
                                tok::raise(V5_ORDER, format!("zero-sized elements: map called its closure {} times on {} elements", calls, n));
                            }
                            self.form = ZForm::V(v2);
                        }
                        Err(crate::exec::Thrown::Injected) if fired => {}
                        Err(crate::exec::Thrown::Injected) => tok::raise(V10_UNEXPECTED_PANIC, "zero-sized elements: map: an injected panic surfaced where none was planned (harness)".to_string()),
                        Err(crate::exec::Thrown::Genuine(msg)) => tok::raise(V10_UNEXPECTED_PANIC, format!("zero-sized elements: map panicked: {}", msg)),
                    }
                    true
                }
                o => {
                    self.form = o;
                    false
                }
            },
            VArith => match std::mem::replace(&mut self.form, ZForm::Gone) {
                ZForm::V(v) => {
                    // counting version of the arithmetic operations: whatever happens, created - destroyed
                    // must equal what is still owned (n when a vector comes back, 0 after a panic or a reduction)
                    let mode = op.a % 21;
                    if mode >= 11 {
                        // the reference-left forms exist for the leaf element shapes with identities only
                        self.form = ZForm::V(v);
                        return false;
                    }
                    let mk = || <$K as Kind<ZDrop>>::v_from_arr(<$K as Kind<ZDrop>>::arr_from_vec((0..n).map(|_| ZDrop::new()).collect()));
                    let pa = if op.f < 1000 { op.f } else { 0 };
                    ztick_arm(pa);
                    let mut kept: Option<<$K as Kind<ZDrop>>::V> = None;
                    let r = {
                        let kept = &mut kept;
                        crate::exec::guard(0, 0, None, move || -> Option<<$K as Kind<ZDrop>>::V> {
                            match mode {
                                0 => Some(<$K as Kind<ZDrop>>::v_binop(v, mk(), op.b >> 16)),
                                1 => Some(<$K as Kind<ZDrop>>::v_add_arr(v, <$K as Kind<ZDrop>>::v_into_arr(mk()))),
                                2 => Some(<$K as Kind<ZDrop>>::v_mul_tup(v, <$K as Kind<ZDrop>>::v_into_tup(mk()))),
                                3 => {
                                    let w = mk();
                                    Some(<$K as Kind<ZDrop>>::v_add_ref(v, &w))
                                }
                                4 => {
                                    *kept = Some(v);
                                    <$K as Kind<ZDrop>>::v_assign(kept.as_mut().unwrap(), mk(), op.b >> 16);
                                    kept.take()
                                }
                                5 => Some(<$K as Kind<ZDrop>>::v_unop(v, op.b >> 16)),
                                6 => Some(<$K as Kind<ZDrop>>::v_mul_add(v, mk(), mk())),
                                7 => Some(<$K as Kind<ZDrop>>::v_sum_of(vec![v, mk()].into_iter())),
                                8 => Some(<$K as Kind<ZDrop>>::v_product_of(vec![v, mk(), mk()].into_iter())),
                                9 => {
                                    drop(<$K as Kind<ZDrop>>::v_elem_sum(v));
                                    None
                                }
                                _ => {
                                    drop(<$K as Kind<ZDrop>>::v_elem_product(v));
                                    None
                                }
                            }
                        })
                        .0
                    };
                    let (_, fired) = ztick_take();
                    match r {
                        Ok(Some(v2)) => self.form = ZForm::V(v2),
                        Ok(None) => {}
                        Err(crate::exec::Thrown::Injected) if fired => {
                            // v += w cut short: the vector is still the caller's
                            if let Some(v) = kept.take() {
                                self.form = ZForm::V(v);
                            }
                        }
                        Err(crate::exec::Thrown::Injected) => tok::raise(V10_UNEXPECTED_PANIC, "zero-sized elements: arithmetic: an injected panic surfaced where none was planned (harness)".to_string()),
                        Err(crate::exec::Thrown::Genuine(msg)) => tok::raise(V10_UNEXPECTED_PANIC, format!("zero-sized elements: arithmetic panicked: {}", msg)),
                    }
                    true
                }
                o => {
                    self.form = o;
                    false
                }
            },
            VClone => match &self.form {
                ZForm::V(v) => {
                    if op.a % 2 == 1 {
                        let mut w = <$K as Kind<ZDrop>>::v_from_arr(<$K as Kind<ZDrop>>::arr_from_vec((0..n).map(|_| ZDrop::new()).collect()));
                        let _ = guard_nopanic("clone_from", 0, 0, || <$K as Kind<ZDrop>>::v_clone_from(&mut w, v));
                        drop(w);
                    } else {
                        let c = guard_nopanic("clone", 0, 0, || <$K as Kind<ZDrop>>::v_clone(v));
                        drop(c);
                    }
                    true
                }
                _ => false,
            },
            Drop => {
                if matches!(self.form, ZForm::Gone) {
                    return false;
                }
                let form = std::mem::replace(&mut self.form, ZForm::Gone);
                let _ = guard_nopanic("drop", 0, 0, move || drop(form));
                true
            }
            Forget => {
                if matches!(self.form, ZForm::Gone) {
                    return false;
                }
                self.forgotten += self.in_form();
                std::mem::forget(std::mem::replace(&mut self.form, ZForm::Gone));
                true
            }
            Fresh => {
                if !matches!(self.form, ZForm::Gone) {
                    return false;
                }
                let items: Vec<ZDrop> = (0..n).map(|_| ZDrop::new()).collect();
                self.form = ZForm::Arr(<$K as Kind<ZDrop>>::arr_from_vec(items));
                true
            }
            _ => false,
        };
        if done && !tok::has_violation() {
            self.check_len(op.k.name());
        }
        if done && !tok::has_violation() {
            self.conserve(op.k.name());
        }
        done
    }

    pub fn finish(&mut self) {
        if tok::has_violation() {
            std::mem::forget(std::mem::replace(&mut self.form, ZForm::Gone));
            std::mem::forget(std::mem::take(&mut self.held));
            return;
        }
        let form = std::mem::replace(&mut self.form, ZForm::Gone);
        let _ = guard_nopanic("final drop", 0, 0, move || drop(form));
        self.conserve("the final drop of the container");
        if !tok::has_violation() {
            self.held.clear();
            self.conserve("end of run");
        }
    }
}
        impl ZStepper for ZExec<$K> {
            fn start(&mut self, st: &mut Stats) {
                ZExec::<$K>::start(self, st)
            }
            fn step(&mut self, op: Op) -> bool {
                ZExec::<$K>::step(self, op)
            }
            fn finish(&mut self) {
                ZExec::<$K>::finish(self)
            }
        }
    };
}
zexec_impl!(KVec2);
zexec_impl!(KVec3);
zexec_impl!(KVec4);
zexec_impl!(KVec8);
zexec_impl!(KVec16);
zexec_impl!(KVec32);
zexec_impl!(KVec64);
zexec_impl!(KExtent2);
zexec_impl!(KExtent3);
zexec_impl!(KRgb);
zexec_impl!(KRgba);
zexec_impl!(KUv);
zexec_impl!(KUvw);
