#!/usr/bin/env python3
"""tools/record_benign.py: run the quick check and a short Miri pass against every correct rewrite under
benign/ (apply to /repo, check, undo). All must stay silent. Writes benign/RESULTS.md."""
import os, re, subprocess
os.chdir("/verif")
rows = []
for bid in sorted(os.listdir("benign")):
    d = f"benign/{bid}"
    if not os.path.isdir(d): continue
    out = subprocess.run(["./tools/try_seeded.sh", f"{d}/patch.diff", "quick"], capture_output=True, text=True).stdout
    ex = re.search(r"exit=(\d+)", out)
    quick = "silent" if ex and ex.group(1) == "0" else "ALARM: " + " ".join(out.split("\n")[1:3])
    subprocess.run(["git", "-C", "/repo", "apply", os.path.abspath(f"{d}/patch.diff")], check=True)
    try:
        mo = subprocess.run(["./miri_pass.sh", "/tmp/benign_miri.json", "1", "16", "40"], capture_output=True, text=True, env=dict(os.environ, VERIF_REPLAYS="/tmp/benign_miri_replays")).stdout
    finally:
        subprocess.run(["git", "-C", "/repo", "checkout", "--", "src"], check=True)
    m = re.search(r"Miri pass: (.*)", mo)
    miri = m.group(1) if m else "harness error: " + mo[-200:]
    rows.append((bid, quick, miri))
    print(bid, "|", quick, "|", miri, flush=True)
with open("benign/RESULTS.md", "w") as f:
    f.write("# Correct rewrites: the check must stay silent (tools/record_benign.py)\n\n| id | quick tier | Miri pass (16 shards x 40) |\n|----|-----------|------------------------------|\n")
    for r in rows: f.write(f"| {r[0]} | {r[1]} | {r[2]} |\n")
