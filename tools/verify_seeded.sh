#!/bin/bash
# tools/verify_seeded.sh <X> <wt> <outdir>: confirm a sub-agent's seeded change independently:
#   (1) with the patch, the crate builds with all type features and the pinned suite passes (674);
#   (2) the demonstration fails with the patch; (3) the demonstration passes without it.
set -u
X="$1"; wt="$2"; out="$3"
cd "$wt" || exit 2
git checkout -q -- . ; rm -f tests/demo_*.rs
git apply "$out/patch.diff" || { echo "PATCH DOES NOT APPLY"; exit 2; }
cargo build --offline -j 8 --features "vec8 vec16 vec32 vec64 rgb rgba uv uvw" >/dev/null 2>&1 && echo "build(all type features): ok" || echo "build(all type features): FAILED"
suite=$( (cargo nextest run --workspace --no-fail-fast --tool-config-file pb:/w/lib/nextest.toml --profile pb --test-threads 8 --offline 2>&1 || true) | grep -E "^\s*Summary|tests run" | tail -1)
echo "suite with patch: $suite"
mkdir -p tests; cp "$out/demo_$X.rs" tests/
with=$(cargo test --offline -j 8 --features "vec8 vec16 vec32 vec64 rgb rgba uv uvw" --test demo_$X 2>&1 | grep -E "^test result" | tail -1)
echo "demo with patch: $with"
git checkout -q -- src
without=$(cargo test --offline -j 8 --features "vec8 vec16 vec32 vec64 rgb rgba uv uvw" --test demo_$X 2>&1 | grep -E "^test result" | tail -1)
echo "demo without patch: $without"
rm -f tests/demo_$X.rs
