#!/bin/bash
# tools/try_seeded_scratch.sh <patch.diff> [tier] — the same experiment as try_seeded.sh, but without
# touching /repo or /verif/sim/target, so that several can run side by side and while the simulator
# is being edited: a scratch worktree of /repo gets the patch, a scratch copy of /verif (committed
# AND uncommitted files, no build output) gets its path dependency pointed at that worktree, the
# check runs there, everything is removed afterwards. For sensitivity work only; nothing here is
# registered in MANIFEST.json. Environment (VERIF_NO_MIRI, VERIF_NO_DBGCFG, VERIF_SEED, ...) is
# passed through.
set -u
patch="$(readlink -f "$1")"; tier="${2:-quick}"
wt="$(mktemp -d /tmp/tss-wt.XXXXXX)"; vc="$(mktemp -d /tmp/tss-verif.XXXXXX)"
cleanup() { git -C /repo worktree remove --force "$wt" >/dev/null 2>&1; rm -rf "$wt" "$vc"; }
trap cleanup EXIT
rmdir "$wt"
git -C /repo worktree add -q --detach "$wt" HEAD || { echo "cannot create worktree" >&2; exit 2; }
git -C "$wt" apply "$patch" || { echo "patch does not apply" >&2; exit 2; }
rsync -a --exclude .git --exclude 'sim/target' --exclude replays --exclude evidence /verif/ "$vc/"
sed -i "s|path = \"/repo\"|path = \"$wt\"|" "$vc/sim/Cargo.toml"
sed -i "s|/verif/sim/target|$vc/sim/target|" "$vc/sim/.cargo/config.toml"
mkdir -p "$vc/scratch"
( cd "$vc" && VERIF_EVIDENCE="$vc/scratch/C18.json" VERIF_REPLAYS="$vc/scratch/replays" timeout 3600 ./check C18 --tier "$tier" ) > "$vc/scratch/out.txt" 2>&1
rc=$?
echo "exit=$rc"
grep -E "^(violation|minimised|VIOLATION|KNOWN-FINDING|C18 held|harness error|the batch process|Miri pass)" "$vc/scratch/out.txt" | sed -e 's/^/  /'
f=$(grep -o 'replay=[^ ]*' "$vc/scratch/out.txt" | head -1 | cut -d= -f2)
if [ -n "$f" ] && [ -f "$f" ]; then echo "  --- minimised replay:"; python3 - "$f" <<'P'
import json,sys
j=json.load(open(sys.argv[1]))
print("  container",j["container"],"class",j["class"])
for o in j["ops"]: print("   ",o)
print("  violation",j["violation"])
P
fi
if [ $rc -ne 0 ] && [ $rc -ne 1 ]; then tail -30 "$vc/scratch/out.txt" | sed -e 's/^/  | /'; fi
