#!/usr/bin/env python3
"""tools/record_parallel.py seeded|benign [jobs] [id-prefix ...]

Runs the C18 quick check against every stored change with tools/try_seeded_scratch.sh (scratch
worktree of /repo + scratch copy of /verif per change, so several run side by side and neither
/repo nor /verif/sim/target is touched) and records the verdicts in <dir>/<id>/meta.json and in
seeded/RESULTS-quick.md / benign/RESULTS.md.

seeded: first pass = the native release search of the quick tier only (VERIF_NO_MIRI=1
VERIF_NO_DBGCFG=1; a catch there is a catch by the quick tier, which runs that search as its last
part); whatever that pass misses is run again against the complete quick tier (Miri window and
second build configuration included). benign: the complete quick tier, which must stay silent."""
import concurrent.futures, json, os, re, subprocess, sys

kind = sys.argv[1]
jobs = int(sys.argv[2]) if len(sys.argv) > 2 else 5
only = sys.argv[3:]
os.chdir("/verif")
ids = sorted(d for d in os.listdir(kind) if os.path.isdir(f"{kind}/{d}") and (not only or any(d.startswith(o) for o in only)))


def run(sid, full):
    env = dict(os.environ)
    if not full:
        env["VERIF_NO_MIRI"] = "1"
        env["VERIF_NO_DBGCFG"] = "1"
    out = subprocess.run(["tools/try_seeded_scratch.sh", f"{kind}/{sid}/patch.diff", "quick"], capture_output=True, text=True, env=env).stdout
    ex = re.search(r"exit=(\d+)", out)
    rc = int(ex.group(1)) if ex else 99
    v = re.search(r"violation in run (\d+) of seed (\d+): (\S+) at step (\S+) \((\w+)\): (.*)", out)
    mn = re.search(r"minimised (\d+) -> (\d+) operations .*container (\S+)", out)
    mi = re.search(r"Miri pass: (error: .*)", out)
    detail = ""
    if v:
        detail = f"{v.group(3)} at {v.group(5)} (run {v.group(1)} of seed {v.group(2)}): {v.group(6)}"
        if mn:
            detail += f"; minimised {mn.group(1)} -> {mn.group(2)} operations on {mn.group(3)}"
    elif mi:
        detail = "Miri window of the quick tier: " + mi.group(1)
    return sid, rc, detail, out


def record(sid, verdict, detail, part):
    p = f"{kind}/{sid}/meta.json"
    meta = json.load(open(p)) if os.path.exists(p) else {"id": sid}
    cr = meta.get("check_result", {})
    if not isinstance(cr, dict):
        cr = {}
    cr["quick"] = {"verdict": verdict, "detail": detail, "part_of_quick_tier_run": part, "tool": "tools/record_parallel.py (tools/try_seeded_scratch.sh)"}
    meta["check_result"] = cr
    json.dump(meta, open(p, "w"), indent=1)


rows = {}
with concurrent.futures.ThreadPoolExecutor(max_workers=jobs) as ex:
    first_full = kind == "benign"
    second = []
    for sid, rc, detail, out in ex.map(lambda s: run(s, first_full), ids):
        if kind == "seeded":
            if rc == 1:
                rows[sid] = ("caught", detail, "native release search")
            else:
                second.append(sid)
        else:
            rows[sid] = ("silent" if rc == 0 else ("FALSE ALARM" if rc == 1 else f"harness-error({rc})"), detail, "complete quick tier")
        print(sid, rc, detail[:160], flush=True)
    for sid, rc, detail, out in ex.map(lambda s: run(s, True), second):
        rows[sid] = ("caught" if rc == 1 else ("missed" if rc == 0 else f"harness-error({rc})"), detail, "complete quick tier (the native release search alone is silent)")
        print("second pass:", sid, rc, detail[:160], flush=True)
for sid, (verdict, detail, part) in rows.items():
    record(sid, verdict, detail, part)
if not only:
    fn = "seeded/RESULTS-quick.md" if kind == "seeded" else "benign/RESULTS.md"
    with open(fn, "w") as f:
        f.write(f"# C18 quick check against every {kind} change (tools/record_parallel.py {kind})\n\n| id | verdict | where | detail |\n|----|---------|-------|--------|\n")
        for sid in ids:
            v, d, p = rows[sid]
            f.write(f"| {sid} | {v} | {p} | {d} |\n")
print({k: sum(1 for r in rows.values() if r[0] == k) for k in set(r[0] for r in rows.values())})
