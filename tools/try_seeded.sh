#!/bin/bash
# tools/try_seeded.sh <patch.diff> [tier]  — apply a seeded change to /repo, run the C18 check
# against it (evidence and replays go to a scratch directory, never to the committed ones),
# undo the change straight afterwards. Prints the check's verdict. For sensitivity work only;
# nothing here is registered in MANIFEST.json.
set -u
patch="$(readlink -f "$1")"; tier="${2:-quick}"
cd /repo || exit 2
if [ -n "$(git status --porcelain -- src)" ]; then echo "refusing: /repo/src is dirty" >&2; exit 2; fi
git apply "$patch" || { echo "patch does not apply" >&2; exit 2; }
scratch="$(mktemp -d /tmp/try_seeded.XXXXXX)"
( cd /verif && VERIF_EVIDENCE="$scratch/C18.json" VERIF_REPLAYS="$scratch/replays" timeout 3600 ./check C18 --tier "$tier" ) > "$scratch/out.txt" 2>&1
rc=$?
git -C /repo checkout -- src
echo "exit=$rc"
grep -E "^(violation|minimised|VIOLATION|KNOWN-FINDING|C18 held|harness error|the batch process)" "$scratch/out.txt" | sed -e 's/^/  /'
f=$(grep -o 'replay=[^ ]*' "$scratch/out.txt" | head -1 | cut -d= -f2)
if [ -n "$f" ] && [ -f "$f" ]; then echo "  --- minimised replay:"; python3 - "$f" <<'P'
import json,sys
j=json.load(open(sys.argv[1]))
print("  container",j["container"],"class",j["class"])
for o in j["ops"]: print("   ",o)
print("  violation",j["violation"])
P
fi
echo "  (full output: $scratch/out.txt)"
