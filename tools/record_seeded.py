#!/usr/bin/env python3
"""tools/record_seeded.py [tier]: run the C18 check against every seeded change (one at a time:
apply to /repo, check, undo) and record the verdict in seeded/<id>/meta.json and seeded/RESULTS.md."""
import json, os, re, subprocess, sys
tier = sys.argv[1] if len(sys.argv) > 1 else "quick"
only = sys.argv[2:]  # optional id prefixes: run only these, keep the recorded verdicts of the others
os.chdir("/verif")
rows = []
for sid in sorted(os.listdir("seeded")):
    d = f"seeded/{sid}"
    if not os.path.isdir(d): continue
    if only and not any(sid.startswith(o) for o in only):
        cr = json.load(open(f"{d}/meta.json")).get("check_result", {}).get(tier, {})
        rows.append((sid, cr.get("verdict", "not recorded"), cr.get("detail", "")))
        continue
    out = subprocess.run(["./tools/try_seeded.sh", f"{d}/patch.diff", tier], capture_output=True, text=True).stdout
    ex = re.search(r"exit=(\d+)", out)
    v = re.search(r"violation in run (\d+) of seed (\d+): (\S+) at step (\S+) \((\w+)\): (.*)", out)
    mi = re.search(r"Miri pass: (.*)", out)
    mn = re.search(r"minimised (\d+) -> (\d+) operations .*container (\S+)", out)
    verdict = "caught" if ex and ex.group(1) == "1" else ("missed" if ex and ex.group(1) == "0" else "harness-error")
    detail = ""
    if v: detail = f"{v.group(3)} at {v.group(5)} (run {v.group(1)} of seed {v.group(2)}): {v.group(6)}"
    if mn: detail += f"; minimised {mn.group(1)} -> {mn.group(2)} operations on {mn.group(3)}"
    if mi and not v: detail = "Miri pass: " + mi.group(1)
    meta = json.load(open(f"{d}/meta.json"))
    cr = meta.get("check_result", {})
    if not isinstance(cr, dict) or "command" in cr: cr = {}
    cr[tier] = {"verdict": verdict, "detail": detail}
    meta["check_result"] = cr
    meta["check_command"] = "tools/try_seeded.sh seeded/<id>/patch.diff <tier>  (git -C /repo apply; ./check C18 --tier <tier>; git -C /repo checkout -- src)"
    json.dump(meta, open(f"{d}/meta.json", "w"), indent=1)
    rows.append((sid, verdict, detail))
    print(sid, verdict, detail, flush=True)
with open(f"seeded/RESULTS-{tier}.md", "w") as f:
    f.write(f"# C18 {tier} check against every seeded change (tools/record_seeded.py {tier})\n\n| id | verdict | detail |\n|----|---------|--------|\n")
    for r in rows: f.write(f"| {r[0]} | {r[1]} | {r[2]} |\n")
