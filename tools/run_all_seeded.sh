#!/bin/bash
# tools/run_all_seeded.sh [tier]: run the C18 check against every seeded change, one at a time.
cd /verif
for d in seeded/*/; do
  id=$(basename "$d")
  echo "=== $id"
  ./tools/try_seeded.sh "$d/patch.diff" "${1:-quick}" | grep -E "exit=|violation in run|minimised|C18 held|harness" 
done
